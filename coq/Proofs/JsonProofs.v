(* Proofs/JsonProofs.v — the document printed by `julian -J` is a JSON text (grammar of Hand/Json.v) denoting
   the expected value: calendar object, one date object per argument, old_style exactly for reforming calendars. *)
From JV Require Import Sem Gen.
From JV Require Import Hand.Text Hand.Lexopt Hand.Json Hand.Cli.
From JV Require Import Proofs.TextProofs Proofs.LexoptProofs Proofs.CliProofs.
Open Scope Z_scope.
Ltac Zify.zify_post_hook ::= Z.to_euclidean_division_equations.

(* ================================================================ small grammar facts *)
Lemma ws_nil : ws []. Proof. constructor. Qed.
Lemma ws_app a b : ws a -> ws b -> ws (a ++ b). Proof. unfold ws. intros. apply Forall_app. split; assumption. Qed.
Lemma ws_spaces n : ws (spaces n).
Proof. unfold ws, spaces. induction n; cbn [repeat]; constructor; [left; reflexivity | assumption]. Qed.
Lemma ws_NL : ws NL. Proof. constructor; [right; right; left; reflexivity | constructor]. Qed.
Lemma ws_space1 : ws [32]. Proof. repeat constructor. Qed.
#[local] Hint Resolve ws_nil ws_app ws_spaces ws_NL ws_space1 : ws.

(* ---- numbers *)
Lemma dec_value_dval : forall ds acc, fold_left (fun a c => a * 10 + (c - 48)) ds acc = dval_from acc ds.
Proof. induction ds as [|c r IH]; intros acc; [reflexivity|]. cbn [fold_left dval_from]. apply IH. Qed.

Lemma is_digits_chars ds : is_digits ds -> Forall is_digit_char ds.
Proof. apply Forall_impl. intros c H. apply is_digit_range in H. exact H. Qed.

Lemma show_dec_json n : 0 <= n -> json_int_digits (show_dec n) /\ dec_value (show_dec n) = n.
Proof.
  intros Hn. split.
  2:{ unfold dec_value. rewrite dec_value_dval. apply show_dec_value. assumption. }
  destruct (Z.eq_dec n 0) as [->|Hz]; [rewrite show_dec_zero; constructor|].
  pose proof (show_dec_digits n Hn) as Hd. pose proof (show_dec_value n Hn) as Hv.
  pose proof (show_dec_nonempty n) as Hne.
  destruct (show_dec n) as [|d ds] eqn:E; [congruence|].
  apply Forall_cons_iff in Hd. destruct Hd as [Hd1 Hd2]. apply is_digit_range in Hd1.
  constructor; [|apply is_digits_chars; assumption].
  destruct (Z.eq_dec d 48) as [->|]; [exfalso|lia].
  unfold digits_value in Hv. cbn [dval_from] in Hv. change (0 * 10 + (48 - 48)) with 0 in Hv.
  destruct ds as [|d2 ds'].
  - cbn in Hv. lia.
  - pose proof (show_dec_shortest n (d2 :: ds') Hn ltac:(discriminate) Hd2 Hv) as Hs.
    rewrite E in Hs. rewrite (len_cons 48) in Hs. lia.
Qed.

Lemma json_number_show_int z : json_number (show_int z) (JNumber z).
Proof.
  unfold show_int. destruct (z <? 0) eqn:E.
  - destruct (show_dec_json (- z)) as [H1 H2]; [lia|].
    pose proof (jn_int true (show_dec (- z)) H1) as H. cbn [app] in H. rewrite H2 in H.
    replace (- - z) with z in H by lia. exact H.
  - destruct (show_dec_json z) as [H1 H2]; [lia|].
    pose proof (jn_int false (show_dec z) H1) as H. cbn [app] in H. rewrite H2 in H. exact H.
Qed.

Lemma json_value_show_int z : json_value (show_int z) (JNumber z).
Proof. apply jv_number. apply json_number_show_int. Qed.

(* ---- strings without escapes *)
Definition unescaped_b (c : Z) : bool :=
  ((32 <=? c) && (c <=? 33)) || ((35 <=? c) && (c <=? 91)) || ((93 <=? c) && (c <=? 1114111)).
Lemma unescaped_b_ok c : unescaped_b c = true -> is_unescaped c.
Proof. unfold unescaped_b, is_unescaped. lia. Qed.

Lemma json_chars_plain s : Forall is_unescaped s -> json_chars s s.
Proof. induction 1; constructor; assumption. Qed.

Lemma json_string_plain s : Forall is_unescaped s -> json_string (QUOTE ++ s ++ QUOTE) s.
Proof. intros H. unfold QUOTE. cbn [app]. constructor. apply json_chars_plain. assumption. Qed.

Lemma unescaped_codes (k : string) : forallb unescaped_b (codes k) = true -> Forall is_unescaped (codes k).
Proof. apply forallb_Forall. exact unescaped_b_ok. Qed.

(* ================================================================ the printed shapes *)
Definition COLON_SP : list Z := codes """: ".        (* quotation mark, colon, space *)

(* one key-colon-value line, after a newline and an indentation *)
Definition kv_text (indent : nat) (k v : list Z) : list Z := NL ++ spaces indent ++ QUOTE ++ k ++ COLON_SP ++ v.

Fixpoint members_text (indent : nat) (ms : list (list Z * list Z)) : list Z :=
  match ms with
  | [] => []
  | [(k, v)] => kv_text indent k v
  | (k, v) :: r => kv_text indent k v ++ codes "," ++ members_text indent r
  end.

Definition object_text (close indent : nat) (ms : list (list Z * list Z)) : list Z :=
  codes "{" ++ members_text indent ms ++ NL ++ spaces close ++ codes "}".

Fixpoint elems_text (objs : list (list Z)) : list Z :=
  match objs with
  | [] => []
  | [o] => NL ++ spaces 8 ++ o ++ NL ++ spaces 4
  | o :: r => NL ++ spaces 8 ++ o ++ codes "," ++ elems_text r
  end.

Definition array_text (objs : list (list Z)) : list Z := codes "[" ++ elems_text objs ++ codes "]".

(* a rendered member (key text, value text) denotes (key, value) *)
Definition member_ok (m : list Z * list Z) (mv : list Z * jvalue) : Prop :=
  Forall is_unescaped (fst m) /\ fst mv = fst m /\ json_value (snd m) (snd mv).

Lemma kv_text_shape indent k v tail :
  kv_text indent k v ++ tail = (NL ++ spaces indent) ++ (QUOTE ++ k ++ QUOTE) ++ [] ++ 58 :: [32] ++ v ++ tail.
Proof. unfold kv_text, COLON_SP, QUOTE. rewrite <- !app_assoc. reflexivity. Qed.

Lemma members_text_cons indent k v m2 r :
  members_text indent ((k, v) :: m2 :: r) = kv_text indent k v ++ codes "," ++ members_text indent (m2 :: r).
Proof. reflexivity. Qed.
Lemma elems_text_cons o o2 r : elems_text (o :: o2 :: r) = NL ++ spaces 8 ++ o ++ codes "," ++ elems_text (o2 :: r).
Proof. reflexivity. Qed.

Lemma members_json indent close : forall ms mvs,
  ms <> [] -> Forall2 member_ok ms mvs ->
  json_members (members_text indent ms ++ NL ++ spaces close) mvs.
Proof.
  induction ms as [|[k v] r IH]; intros mvs Hne H; [congruence|].
  inversion H as [|? [kd jv] ? mvs' (Hk & Hkd & Hv) Hr]; subst. cbn [fst snd] in *. subst kd.
  destruct r as [|m2 r'].
  - inversion Hr; subst. cbn [members_text]. rewrite kv_text_shape.
    apply jm_one; auto with ws. apply json_string_plain. assumption.
  - rewrite members_text_cons.
    replace ((kv_text indent k v ++ codes "," ++ members_text indent (m2 :: r')) ++ NL ++ spaces close)
      with ((NL ++ spaces indent) ++ (QUOTE ++ k ++ QUOTE) ++ [] ++ 58 :: [32] ++ v ++ [] ++
            44 :: (members_text indent (m2 :: r') ++ NL ++ spaces close))
      by (unfold kv_text, COLON_SP, QUOTE; rewrite <- !app_assoc; reflexivity).
    apply jm_cons; auto with ws.
    + apply json_string_plain. assumption.
    + apply IH; [discriminate | assumption].
Qed.

Lemma object_json close indent ms mvs :
  ms <> [] -> Forall2 member_ok ms mvs -> json_value (object_text close indent ms) (JObj mvs).
Proof.
  intros Hne H. unfold object_text.
  change (codes "{" ++ members_text indent ms ++ NL ++ spaces close ++ codes "}")
    with (123 :: members_text indent ms ++ NL ++ spaces close ++ [125]).
  replace (members_text indent ms ++ NL ++ spaces close ++ [125])
    with ((members_text indent ms ++ NL ++ spaces close) ++ [125]) by (rewrite <- !app_assoc; reflexivity).
  apply jv_object. apply members_json; assumption.
Qed.

Lemma elems_json : forall objs vs,
  objs <> [] -> Forall2 json_value objs vs -> json_elements (elems_text objs) vs.
Proof.
  induction objs as [|o r IH]; intros vs Hne H; [congruence|].
  inversion H as [|? v ? vs' Hv Hr]; subst.
  destruct r as [|o2 r'].
  - inversion Hr; subst. cbn [elems_text].
    replace (NL ++ spaces 8 ++ o ++ NL ++ spaces 4) with ((NL ++ spaces 8) ++ o ++ (NL ++ spaces 4))
      by (rewrite <- !app_assoc; reflexivity).
    apply je_one; auto with ws.
  - rewrite elems_text_cons.
    replace (NL ++ spaces 8 ++ o ++ codes "," ++ elems_text (o2 :: r'))
      with ((NL ++ spaces 8) ++ o ++ [] ++ 44 :: elems_text (o2 :: r')) by (rewrite <- !app_assoc; reflexivity).
    apply je_cons; auto with ws. apply IH; [discriminate | assumption].
Qed.

Lemma array_json objs vs :
  objs <> [] -> Forall2 json_value objs vs -> json_value (array_text objs) (JArr vs).
Proof.
  intros Hne H. unfold array_text.
  change (codes "[" ++ elems_text objs ++ codes "]") with (91 :: elems_text objs ++ [93]).
  apply jv_array. apply elems_json; assumption.
Qed.

(* ================================================================ the expected values *)
Definition text_of (m : M (list Z)) : list Z := match m with Ret s => s | Panic => [] end.

Definition reformation_of (c : Calendar) : option Z :=
  match Calendar_f_0 c with inner_Calendar_Reforming r _ => Some r | _ => None end.

(* {"type": ..., ["reformation": r]} *)
Definition jcalendar (c : Calendar) : jvalue :=
  JObj ((codes "type", JStr (calendar_type_name c))
        :: match reformation_of c with Some r => [(codes "reformation", JNumber r)] | None => [] end).

(* the object describing one date; old_style present iff the calendar is reforming, true iff jdn < reformation *)
Definition jdate (d : Date) : jvalue :=
  JObj ([ (codes "julian_day_number", JNumber (Date_f_jdn d));
          (codes "year", JNumber (Date_f_year d));
          (codes "month", JNumber (Month_discr (Date_f_month d)));
          (codes "day", JNumber (Date_f_day d));
          (codes "ordinal", JNumber (Date_f_ordinal d));
          (codes "display", JStr (text_of (show_date d)));
          (codes "ordinal_display", JStr (text_of (show_date_alt d))) ]
        ++ match reformation_of (Date_f_calendar d) with
           | Some r => [(codes "old_style", JBool (Date_f_jdn d <? r))]
           | None => []
           end).

Definition jdoc (c : Calendar) (ds : list Date) : jvalue :=
  JObj [ (codes "calendar", jcalendar c); (codes "dates", JArr (map jdate ds)) ].

(* ================================================================ the printers produce those shapes *)
(* fields of a date whose rendering needs them non-negative (they are u32 in Rust) *)
Definition date_ok (c : Calendar) (d : Date) : Prop :=
  Date_f_calendar d = c /\ 0 <= Date_f_ordinal d /\ 0 <= Date_f_day d.

Definition date_fields (d : Date) : list (list Z * list Z) :=
  [ (codes "julian_day_number", show_int (Date_f_jdn d));
    (codes "year", show_int (Date_f_year d));
    (codes "month", show_int (Month_discr (Date_f_month d)));
    (codes "day", show_int (Date_f_day d));
    (codes "ordinal", show_int (Date_f_ordinal d));
    (codes "display", QUOTE ++ text_of (show_date d) ++ QUOTE);
    (codes "ordinal_display", QUOTE ++ text_of (show_date_alt d) ++ QUOTE) ]
  ++ match reformation_of (Date_f_calendar d) with
     | Some r => [(codes "old_style", if Date_f_jdn d <? r then codes "true" else codes "false")]
     | None => []
     end.

Lemma date2json_shape d : date2json d = Ret (spaces 8 ++ object_text 8 12 (date_fields d)).
Proof.
  unfold date2json, Date_julian_day_number, Date_year, Date_month, Month_number, Date_day, Date_ordinal, Date_calendar,
    Calendar_is_reforming, Date_is_julian. cbn [bind].
  unfold object_text, date_fields, reformation_of.
  destruct (show_date d) as [disp|] eqn:E1; [|rewrite show_date_text in E1; discriminate].
  destruct (show_date_alt d) as [odisp|] eqn:E2; [|rewrite show_date_alt_text in E2; discriminate].
  cbn [bind text_of].
  destruct (Calendar_f_0 (Date_f_calendar d)) as [| |r g]; cbn [bind app members_text].
  1,2: f_equal; unfold kv_text, json_field, COLON_SP; rewrite <- !app_assoc; reflexivity.
  unfold Date_julian_day_number. cbn [bind].
  destruct (Date_f_jdn d <? r); cbn [bind]; f_equal; unfold kv_text, json_field, COLON_SP; rewrite <- !app_assoc; reflexivity.
Qed.

Lemma sign_codes_unescaped sg : Forall is_unescaped (sign_codes sg).
Proof. destruct sg; cbn [sign_codes]; repeat (apply Forall_cons; [unfold is_unescaped; lia|]); apply Forall_nil. Qed.
Lemma digits_unescaped ds : is_digits ds -> Forall is_unescaped ds.
Proof. apply Forall_impl. intros c H. apply is_digit_range in H. unfold is_unescaped. lia. Qed.
Lemma dash_unescaped : Forall is_unescaped [45].
Proof. apply Forall_cons; [unfold is_unescaped; lia | apply Forall_nil]. Qed.

Lemma show_u_unescaped w n : 0 <= n -> Forall is_unescaped (show_u w n).
Proof. intros. apply digits_unescaped. apply show_u_digits. assumption. Qed.

Lemma show_date_unescaped d : 0 <= Date_f_day d -> Forall is_unescaped (text_of (show_date d)).
Proof.
  intros H. rewrite show_date_text. cbn [text_of].
  apply Forall_app; split; [apply sign_codes_unescaped|].
  apply Forall_app; split; [apply show_u_unescaped; lia|].
  apply Forall_app; split; [apply dash_unescaped|].
  apply Forall_app; split; [apply show_u_unescaped; destruct (Date_f_month d); cbn; lia|].
  apply Forall_app; split; [apply dash_unescaped|].
  apply show_u_unescaped; lia.
Qed.
Lemma show_date_alt_unescaped d : 0 <= Date_f_ordinal d -> Forall is_unescaped (text_of (show_date_alt d)).
Proof.
  intros H. rewrite show_date_alt_text. cbn [text_of].
  apply Forall_app; split; [apply sign_codes_unescaped|].
  apply Forall_app; split; [apply show_u_unescaped; lia|].
  apply Forall_app; split; [apply dash_unescaped|].
  apply show_u_unescaped; lia.
Qed.

Lemma key_ok (k : string) (vt : list Z) (v : jvalue) :
  forallb unescaped_b (codes k) = true -> json_value vt v -> member_ok (codes k, vt) (codes k, v).
Proof. intros H1 H2. split; [apply unescaped_codes; assumption | split; [reflexivity | assumption]]. Qed.

Lemma date_object_json c d : date_ok c d -> json_value (object_text 8 12 (date_fields d)) (jdate d).
Proof.
  intros (_ & Ho & Hd). unfold jdate. apply object_json; [discriminate|]. unfold date_fields.
  apply Forall2_app.
  - repeat (apply Forall2_cons; [apply key_ok; [reflexivity|]|]); try apply json_value_show_int; try apply Forall2_nil.
    + apply jv_string. apply json_string_plain. apply show_date_unescaped. assumption.
    + apply jv_string. apply json_string_plain. apply show_date_alt_unescaped. assumption.
  - destruct (reformation_of (Date_f_calendar d)) as [r|]; [|constructor].
    constructor; [|constructor]. apply key_ok; [reflexivity|].
    destruct (Date_f_jdn d <? r); constructor.
Qed.

Definition calendar_fields (c : Calendar) : list (list Z * list Z) :=
  (codes "type", QUOTE ++ calendar_type_name c ++ QUOTE)
  :: match reformation_of c with Some r => [(codes "reformation", show_int r)] | None => [] end.

(* the header line: everything up to and including the '[' *)
Lemma json_start_shape c :
  json_start c = Ret (codes "{" ++ kv_text 4 (codes "calendar") (object_text 4 8 (calendar_fields c)) ++ codes ","
                      ++ NL ++ spaces 4 ++ QUOTE ++ codes "dates" ++ COLON_SP ++ codes "[").
Proof.
  unfold json_start, Calendar_reformation, calendar_fields, reformation_of, object_text.
  destruct (Calendar_f_0 c) as [| |r g] eqn:E; cbn [bind members_text]; f_equal;
    unfold kv_text, COLON_SP, calendar_type_name; rewrite E; rewrite <- !app_assoc; reflexivity.
Qed.

Lemma calendar_object_json c : json_value (object_text 4 8 (calendar_fields c)) (jcalendar c).
Proof.
  unfold jcalendar, calendar_fields. apply object_json; [discriminate|].
  constructor.
  - apply key_ok; [reflexivity|]. apply jv_string. apply json_string_plain.
    unfold calendar_type_name. destruct (Calendar_f_0 c); apply unescaped_codes; reflexivity.
  - destruct (reformation_of c) as [r|]; [|constructor]. constructor; [|constructor].
    apply key_ok; [reflexivity | apply json_value_show_int].
Qed.

(* ================================================================ assembling the lines *)
Definition pad8 (o : list Z) : list Z := spaces 8 ++ o.

Lemma stdout_cons l r : stdout_of (l :: r) = l ++ NL ++ stdout_of r.
Proof. unfold stdout_of. cbn [flat_map]. rewrite <- app_assoc. reflexivity. Qed.

(* what follows the '[' of the header *)
Lemma tail_text : forall objs, objs <> [] ->
  NL ++ stdout_of (push_last JSON_CLOSE (commas (map pad8 objs))) =
  elems_text objs ++ codes "]" ++ NL ++ spaces 0 ++ codes "}" ++ NL.
Proof.
  induction objs as [|o r IH]; intros Hne; [congruence|].
  destruct r as [|o2 r'].
  - cbn [map commas push_last elems_text]. rewrite stdout_cons. unfold stdout_of at 1. cbn [flat_map].
    unfold JSON_CLOSE, pad8. rewrite <- !app_assoc. reflexivity.
  - specialize (IH ltac:(discriminate)).
    change (map pad8 (o :: o2 :: r')) with (pad8 o :: map pad8 (o2 :: r')).
    change (commas (pad8 o :: map pad8 (o2 :: r'))) with ((pad8 o ++ codes ",") :: commas (map pad8 (o2 :: r'))).
    assert (Hc : commas (map pad8 (o2 :: r')) <> []) by (apply commas_nonempty; discriminate).
    assert (Hp : push_last JSON_CLOSE ((pad8 o ++ codes ",") :: commas (map pad8 (o2 :: r'))) =
                 (pad8 o ++ codes ",") :: push_last JSON_CLOSE (commas (map pad8 (o2 :: r')))).
    { cbn [push_last]. destruct (commas (map pad8 (o2 :: r'))); [congruence | reflexivity]. }
    rewrite Hp, stdout_cons, elems_text_cons.
    rewrite <- !app_assoc. rewrite <- IH. unfold pad8. rewrite <- !app_assoc. reflexivity.
Qed.

(* the whole output of a successful JSON run *)
Lemma document_text c objs :
  objs <> [] ->
  forall hdr, json_start c = Ret hdr ->
  stdout_of (hdr :: push_last JSON_CLOSE (commas (map pad8 objs))) =
  object_text 0 4 [ (codes "calendar", object_text 4 8 (calendar_fields c)); (codes "dates", array_text objs) ] ++ NL.
Proof.
  intros Hne hdr Hh. rewrite json_start_shape in Hh. apply (f_equal text_of) in Hh. cbn [text_of] in Hh. subst hdr.
  rewrite stdout_cons. rewrite (tail_text objs Hne).
  match goal with |- _ = object_text 0 4 ?l ++ NL =>
    change (object_text 0 4 l) with (codes "{" ++ members_text 4 l ++ NL ++ spaces 0 ++ codes "}") end.
  cbn [members_text]. unfold array_text, kv_text. rewrite <- !app_assoc. reflexivity.
Qed.

Theorem document_json c ds :
  ds <> [] -> Forall (date_ok c) ds ->
  forall hdr, json_start c = Ret hdr ->
  json_text (stdout_of (hdr :: push_last JSON_CLOSE (commas (map (fun d => pad8 (object_text 8 12 (date_fields d))) ds))))
            (jdoc c ds).
Proof.
  intros Hne Hok hdr Hh.
  rewrite <- (map_map (fun d => object_text 8 12 (date_fields d)) pad8).
  rewrite (document_text c (map (fun d => object_text 8 12 (date_fields d)) ds)); [| destruct ds; [congruence | discriminate] | assumption].
  exists [], (object_text 0 4 [ (codes "calendar", object_text 4 8 (calendar_fields c));
                                (codes "dates", array_text (map (fun d => object_text 8 12 (date_fields d)) ds)) ]), NL.
  split; [reflexivity|]. split; [apply ws_nil|]. split; [|apply ws_NL].
  unfold jdoc. apply object_json; [discriminate|].
  constructor; [apply key_ok; [reflexivity | apply calendar_object_json]|].
  constructor; [|constructor]. apply key_ok; [reflexivity|].
  apply array_json; [destruct ds; [congruence | discriminate]|].
  clear Hne. induction Hok as [|d ds' Hd Hr IH]; cbn [map]; constructor; [eapply date_object_json; eassumption | assumption].
Qed.

(* ================================================================ Options::run in JSON mode *)
(* the dates a run reports: those of the arguments, or the current date when there is none *)
Definition run_dates (o : Options) (now : Z) (args : list (list Z)) (ds : list Date) : Prop :=
  match args with
  | [] => exists d, now_date o now = Ret d /\ ds = [d]
  | _ :: _ => Forall2 (fun a d => arg_date o a = Ret (Ok d)) args ds
  end.

Lemma json_objs o : o_json o = true -> forall args ds,
  Forall2 (fun a d => arg_date o a = Ret (Ok d)) args ds ->
  Forall2 (fun a l => arg_line o a = Ret (Ok l)) args (map (fun d => pad8 (object_text 8 12 (date_fields d))) ds).
Proof.
  intros Hj. induction 1 as [|a d args ds Ha Hr IH]; cbn [map]; constructor; [|assumption].
  rewrite arg_line_via_date, Ha. cbn [bind]. unfold line_of_date. rewrite Hj, date2json_shape. reflexivity.
Qed.

Theorem options_run_json o now args ds :
  o_json o = true -> run_dates o now args ds -> Forall (date_ok (o_calendar o)) ds ->
  exists lines, options_run o now args = Ret (Ok lines) /\
                List.length lines = S (List.length ds) /\
                json_text (stdout_of lines) (jdoc (o_calendar o) ds).
Proof.
  intros Hj Hd Hok. unfold options_run. rewrite Hj.
  destruct (json_start_total (o_calendar o)) as (hdr & Hh). rewrite Hh. cbn [bind].
  assert (G : forall objs, objs = map (fun d => pad8 (object_text 8 12 (date_fields d))) ds -> ds <> [] ->
              exists lines, @Ret (Result (list (list Z)) CliError) (Ok (json_finish ([hdr] ++ objs))) = Ret (Ok lines) /\
                            List.length lines = S (List.length ds) /\
                            json_text (stdout_of lines) (jdoc (o_calendar o) ds)).
  { intros objs -> Hne. eexists. split; [reflexivity|]. cbn [app]. rewrite json_finish_shape by (destruct ds; [congruence | discriminate]).
    split; [cbn [List.length]; rewrite push_last_length, commas_length, map_length; reflexivity|].
    apply document_json; assumption. }
  destruct args as [|a r]; cbn [run_dates] in Hd.
  - destruct Hd as (d & Hn & ->). unfold now_date in Hn.
    destruct (calendar_now (o_calendar o) now) as [[[d' secs]|e]|]; cbn [bind] in *; try discriminate.
    injection Hn as ->. unfold date_to_jdn. rewrite Hj, date2json_shape. cbn [bind].
    apply (G [pad8 (object_text 8 12 (date_fields d))]); [reflexivity | discriminate].
  - pose proof (json_objs o Hj _ _ Hd) as Hl.
    assert (E : run_args o (a :: r) [hdr] = Ret (Ok ([hdr] ++ map (fun d => pad8 (object_text 8 12 (date_fields d))) ds))).
    { apply run_args_ok. eexists. split; [reflexivity | assumption]. }
    rewrite E. cbn [bind]. apply G; [reflexivity|]. inversion Hd; subst; discriminate.
Qed.

(* ================================================================ statements used by Properties/C20 *)
Lemma same_date_both_modes o a :
  arg_line o a =
  (r <- arg_date o a;; match r with Err e => Ret (Err e) | Ok d => s <- line_of_date o a d;; Ret (Ok s) end)
  /\ arg_date o a = arg_date (mkOptions (o_calendar o) false (o_ordinal o) (o_quiet o) (o_style o)) a.
Proof. split; [exact (arg_line_via_date o a) | exact (arg_date_mode_independent o a)]. Qed.

Lemma jdate_old_style d :
  jdate d =
  JObj ([ (codes "julian_day_number", JNumber (Date_f_jdn d));
          (codes "year", JNumber (Date_f_year d));
          (codes "month", JNumber (Month_discr (Date_f_month d)));
          (codes "day", JNumber (Date_f_day d));
          (codes "ordinal", JNumber (Date_f_ordinal d));
          (codes "display", JStr (text_of (show_date d)));
          (codes "ordinal_display", JStr (text_of (show_date_alt d))) ]
        ++ match Calendar_f_0 (Date_f_calendar d) with
           | inner_Calendar_Reforming r _ => [(codes "old_style", JBool (Date_f_jdn d <? r))]
           | _ => []
           end).
Proof. unfold jdate, reformation_of. destruct (Calendar_f_0 (Date_f_calendar d)); reflexivity. Qed.

Lemma jcalendar_cases c :
  jcalendar c =
  match Calendar_f_0 c with
  | inner_Calendar_Julian => JObj [(codes "type", JStr (codes "julian"))]
  | inner_Calendar_Gregorian => JObj [(codes "type", JStr (codes "gregorian"))]
  | inner_Calendar_Reforming r _ => JObj [(codes "type", JStr (codes "reforming")); (codes "reformation", JNumber r)]
  end.
Proof. unfold jcalendar, reformation_of, calendar_type_name. destruct (Calendar_f_0 c); reflexivity. Qed.
