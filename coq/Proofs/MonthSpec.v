(* MonthSpec.v — the shape prescribed by the specification describes exactly the days that exist:
   well-formedness, membership = InCal, natural length, length = number of dates in the month. *)
From JV Require Import Sem Gen Spec SpecX.
From JV.Proofs Require Import SpecFacts GapFacts Cal Cmp MonthGeom Shape Month.
Open Scope Z_scope.
Ltac Zify.zify_post_hook ::= Z.to_euclidean_division_equations.

(* arithmetic facts about the old-style / new-style segments of a month *)
Record MonthFacts (c : cal) (y m : Z) : Prop := {
  mf_o : 0 <= old_mdays c y m <= 31;
  mf_f : 1 <= new_mfirst c y m;
  mf_n : new_mdays c y m = Z.max 0 (mlen (gleap y) m - new_mfirst c y m + 1) \/ (c = CJ /\ new_mdays c y m = 0 /\ new_mfirst c y m = 32);
  mf_nl : 28 <= natural_len c y m <= 31;
  mf_old_only : new_mdays c y m = 0 -> old_mdays c y m <= natural_len c y m;
  mf_new : 0 < new_mdays c y m -> natural_len c y m = mlen (gleap y) m;
  mf_gap : 0 < old_mdays c y m -> 0 < new_mdays c y m -> old_mdays c y m + 2 <= new_mfirst c y m
}.

Lemma month_facts c y m : ValidCal c -> 1 <= m <= 12 -> MonthFacts c y m.
Proof.
  intros V Mr. pose proof (mlen_bounds (jleap y) m) as MJ. pose proof (mlen_bounds (gleap y) m) as MG.
  pose proof (mlen_g_le_j y m) as MGJ.
  destruct c as [| |r].
  - split; cbn [old_mdays new_mfirst new_mdays natural_len]; lia.
  - split; cbn [old_mdays new_mfirst new_mdays natural_len]; lia.
  - cbn [ValidCal] in V. destruct (gap_info r V) as (py & pm & pd & qy & qm & qd & GI).
    pose proof (g_pm _ _ _ _ _ _ _ GI) as PM. pose proof (g_qm _ _ _ _ _ _ _ GI) as QM.
    pose proof (g_pq _ _ _ _ _ _ _ GI) as PQ. pose proof (g_rp _ _ _ _ _ _ _ GI) as [_ PD]. pose proof (g_rq _ _ _ _ _ _ _ GI) as [_ QD].
    pose proof (natural_len_eq _ _ _ _ _ _ _ GI y m) as NL.
    assert (NLb : 28 <= natural_len (CR r) y m <= 31) by (rewrite NL; destruct ((y <? qy) || (y =? qy) && (m <? qm)); lia).
    assert (Fn : new_mdays (CR r) y m = Z.max 0 (mlen (gleap y) m - new_mfirst (CR r) y m + 1)) by reflexivity.
    assert (F1 : 1 <= new_mfirst (CR r) y m) by (cbn [new_mfirst]; lia).
    (* position of (y, m) relative to the two boundary months *)
    destruct (ym_lt y m py pm) eqn:C1.
    { apply ym_lt_P in C1. assert (C2 : ym_ltP y m qy qm) by (unfold ym_ltP in *; lia).
      pose proof (old_less _ _ _ _ _ _ _ GI y m Mr C1) as O. pose proof (new_less _ _ _ _ _ _ _ GI y m Mr C2) as N.
      assert (NLJ : natural_len (CR r) y m = mlen (jleap y) m).
      { rewrite NL. replace ((y <? qy) || (y =? qy) && (m <? qm)) with true by (unfold ym_ltP in *; lia). reflexivity. }
      split; lia. }
    destruct (ym_eq y m py pm) eqn:C2.
    { assert (y = py /\ m = pm) as [Ey Em] by (unfold ym_eq in C2; lia).
      pose proof (old_eq _ _ _ _ _ _ _ GI y m Mr Ey Em) as O.
      assert (PD' : 1 <= pd <= mlen (jleap y) m) by (subst; lia).
      destruct (ym_lt y m qy qm) eqn:C3.
      - apply ym_lt_P in C3. pose proof (new_less _ _ _ _ _ _ _ GI y m Mr C3) as N.
        assert (NLJ : natural_len (CR r) y m = mlen (jleap y) m).
        { rewrite NL. replace ((y <? qy) || (y =? qy) && (m <? qm)) with true by (unfold ym_ltP in *; lia). reflexivity. }
        split; lia.
      - assert (y = qy /\ m = qm) as [Ey' Em'] by (unfold ym_lt, ym_ltP in *; lia).
        destruct (new_eq _ _ _ _ _ _ _ GI y m Mr Ey' Em') as [NF NM].
        pose proof (g_intra _ _ _ _ _ _ _ GI ltac:(lia) ltac:(lia)).
        assert (QD' : 1 <= qd <= mlen (gleap y) m) by (subst; lia).
        assert (NLG : natural_len (CR r) y m = mlen (gleap y) m).
        { rewrite NL. replace ((y <? qy) || (y =? qy) && (m <? qm)) with false by lia. reflexivity. }
        split; lia. }
    assert (C2' : ym_ltP py pm y m) by (unfold ym_lt, ym_eq, ym_ltP in *; lia).
    pose proof (old_greater _ _ _ _ _ _ _ GI y m Mr C2') as O.
    destruct (ym_lt y m qy qm) eqn:C3.
    + apply ym_lt_P in C3. pose proof (new_less _ _ _ _ _ _ _ GI y m Mr C3). split; lia.
    + assert (NLG : natural_len (CR r) y m = mlen (gleap y) m).
      { rewrite NL. replace ((y <? qy) || (y =? qy) && (m <? qm)) with false by (unfold ym_lt in C3; lia). reflexivity. }
      split; lia.
Qed.

Section ShapeOf.
  Variables (c : cal) (y m : Z).
  Hypothesis V : ValidCal c.
  Hypothesis Mr : 1 <= m <= 12.
  Hypothesis Ex : 0 < month_count c y m.

  Lemma incalb_eq d :
    incalb c y m d = ((1 <=? d) && (d <=? old_mdays c y m)) || ((new_mfirst c y m <=? d) && (d <=? mlen (gleap y) m)).
  Proof.
    unfold incalb. replace (1 <=? m) with true by lia. replace (m <=? 12) with true by lia. cbn [andb].
    destruct c; cbn [negb]; rewrite ?andb_true_r; try reflexivity.
    cbn [new_mfirst]. pose proof (mlen_bounds (gleap y) m). replace ((32 <=? d) && (d <=? mlen (gleap y) m)) with false by lia.
    rewrite andb_false_r. reflexivity.
  Qed.

  Lemma shape_of_wf : WfShape (shape_of c y m).
  Proof.
    destruct (month_facts c y m V Mr) as [O F N NL OO NN GP]. unfold month_count in Ex.
    pose proof (mlen_bounds (gleap y) m). unfold shape_of, shape_from.
    destruct (Z.eqb_spec (new_mdays c y m) 0) as [N0|N0].
    - specialize (OO N0). destruct (Z.eqb_spec (old_mdays c y m) (natural_len c y m)); cbn [WfShape]; lia.
    - assert (Np : 0 < new_mdays c y m) by (destruct N as [N|[_ [N _]]]; lia). specialize (NN Np).
      destruct (Z.eqb_spec (old_mdays c y m) 0) as [O0|O0].
      + destruct (Z.eqb_spec (new_mfirst c y m) 1); cbn [WfShape]; lia.
      + specialize (GP ltac:(lia) Np). cbn [WfShape]. lia.
  Qed.

  Lemma shape_of_in d : sh_in (shape_of c y m) d = incalb c y m d.
  Proof.
    rewrite incalb_eq.
    destruct (month_facts c y m V Mr) as [O F N NL OO NN GP]. unfold month_count in Ex.
    pose proof (mlen_bounds (gleap y) m). unfold shape_of, shape_from.
    destruct (Z.eqb_spec (new_mdays c y m) 0) as [N0|N0].
    - specialize (OO N0). destruct (Z.eqb_spec (old_mdays c y m) (natural_len c y m)); cbn [sh_in]; lia.
    - assert (Np : 0 < new_mdays c y m) by (destruct N as [N|[_ [N _]]]; lia). specialize (NN Np).
      destruct (Z.eqb_spec (old_mdays c y m) 0) as [O0|O0].
      + destruct (Z.eqb_spec (new_mfirst c y m) 1); cbn [sh_in]; lia.
      + specialize (GP ltac:(lia) Np). cbn [sh_in]. lia.
  Qed.

  Lemma shape_of_natural : sh_natural (shape_of c y m) = natural_len c y m.
  Proof.
    unfold shape_of, shape_from.
    destruct (new_mdays c y m =? 0); [destruct (old_mdays c y m =? natural_len c y m)|destruct (old_mdays c y m =? 0); [destruct (new_mfirst c y m =? 1)|]]; reflexivity.
  Qed.

  Lemma shape_of_len : sh_len (shape_of c y m) = month_count c y m.
  Proof.
    destruct (month_facts c y m V Mr) as [O F N NL OO NN GP]. unfold month_count in *.
    pose proof (mlen_bounds (gleap y) m). unfold shape_of, shape_from.
    destruct (Z.eqb_spec (new_mdays c y m) 0) as [N0|N0].
    - specialize (OO N0). destruct (Z.eqb_spec (old_mdays c y m) (natural_len c y m)); cbn [sh_len]; lia.
    - assert (Np : 0 < new_mdays c y m) by (destruct N as [N|[_ [N _]]]; lia). specialize (NN Np).
      destruct (Z.eqb_spec (old_mdays c y m) 0) as [O0|O0].
      + destruct (Z.eqb_spec (new_mfirst c y m) 1); cbn [sh_len]; lia.
      + specialize (GP ltac:(lia) Np). cbn [sh_len]. lia.
  Qed.
End ShapeOf.
