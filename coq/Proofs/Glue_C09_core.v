(* Glue_C09_core.v — proofs of the statements of Properties/C09_core.v that need a few steps beyond a library lemma
   (rephrasing only: no induction, no case analysis of the model).  The scripts were moved out of the property file so
   that it contains nothing but statements closed by [exact]. *)
From JV Require Import Sem Gen Spec SpecX.
From JV.Proofs Require Import SpecFacts Cal Core SpecSets.
Require JV.Proofs.NthDate.
Open Scope Z_scope.

Lemma C09_none_iff_empty_lemma : forall c y m, ValidCal c -> in_i32 y ->
  (Calendar_month_shape (cal_of c) y m = Ret None <-> forall d, ~ InCal c y (Month_discr m) d).
Proof.
  intros c y m V Hy. pose proof (Month_discr_range m) as Mr. rewrite <- (month_empty_iff c y _ V Mr).
  destruct (month_shape_described c y m V Hy) as [[Z0 E]|[P (s & E & _)]]; rewrite E; split; intros X; try assumption; try reflexivity; try discriminate; lia.
Qed.

