(* SpecSets.v — the set-based notions of the properties (dates falling in a year / a month, number of
   earlier dates, existence of a date) and their closed forms: the dates of a year (month) form one
   interval of day numbers whose size is year_count (month_count); labels increase strictly. *)
From JV Require Import Sem Gen Spec SpecX.
From JV.Proofs Require Import SpecFacts GapFacts Cal Cmp MonthGeom SpecSums.
Open Scope Z_scope.
Ltac Zify.zify_post_hook ::= Z.to_euclidean_division_equations.

Lemma ym_lt_P y m y' m' : ym_lt y m y' m' = true <-> ym_ltP y m y' m'.
Proof. unfold ym_lt, ym_ltP. lia. Qed.

Lemma two_pieces (P : Z -> Prop) a1 n1 a2 n2 : 0 <= n1 -> 0 <= n2 ->
  (forall j, P j <-> (a1 <= j < a1 + n1) \/ (a2 <= j < a2 + n2)) ->
  (0 < n1 -> 0 < n2 -> a2 = a1 + n1) ->
  let a := if 0 <? n1 then a1 else a2 in
  (forall j, P j <-> a <= j < a + (n1 + n2)).
Proof.
  intros H1 H2 E Adj a j. rewrite E. subst a. destruct (Z.ltb_spec 0 n1); destruct (Z.lt_ge_cases 0 n2); try specialize (Adj ltac:(lia) ltac:(lia)); lia.
Qed.
Lemma count_of_interval (P : Z -> Prop) a n : 0 <= n -> (forall j, P j <-> a <= j < a + n) -> CountIs P n.
Proof.
  intros Hn E. unfold CountIs. destruct (Z.eq_dec n 0) as [->|N].
  - left. split; [reflexivity|]. intros j X. apply E in X. lia.
  - right. split; [lia|]. exists a. exact E.
Qed.

Lemma lbl_year_eq c j : l_year (lbl c j) = if is_old c j then jyear j else gyear j.
Proof.
  unfold lbl. destruct (is_old c j); [unfold jlabel|unfold glabel]; destruct (md_of _ _); reflexivity.
Qed.
Lemma jyear_iff j y : jyear j = y <-> J0 y <= j < J0 (y + 1).
Proof. split; [intros <-; apply jyear_spec|apply jyear_unique]. Qed.
Lemma gyear_iff j y : gyear j = y <-> G0 y <= j < G0 (y + 1).
Proof. split; [intros <-; apply gyear_spec|apply gyear_unique]. Qed.

(* where the old-style and the new-style dates of year y lie *)
Definition old_lo (y : Z) : Z := J0 y.

Lemma year_interval c y : ValidCal c ->
  let a := if 0 <? old_days c y then J0 y else new_start c y in
  forall j, InYear c y j <-> a <= j < a + year_count c y.
Proof.
  intros V. unfold year_count.
  pose proof (J0_step y) as JS. pose proof (G0_step y) as GS. pose proof (ylen_bounds (jleap y)). pose proof (ylen_bounds (gleap y)).
  apply (two_pieces (InYear c y) (J0 y) (old_days c y) (new_start c y) (new_days c y)).
  - destruct c; cbn [old_days]; lia.
  - destruct c; cbn [new_days]; lia.
  - intros j. unfold InYear. rewrite lbl_year_eq.
    destruct c as [| |r]; cbn [is_old old_days new_days new_start].
    + rewrite jyear_iff. lia.
    + rewrite gyear_iff. lia.
    + destruct (Z.ltb_spec j r); [rewrite jyear_iff|rewrite gyear_iff]; lia.
  - destruct c as [| |r]; cbn [old_days new_days new_start]; try lia.
    intros O N. cbn [ValidCal] in V. destruct (gap_info r V) as (py & pm & pd & qy & qm & qd & GI).
    pose proof (g_rp _ _ _ _ _ _ _ GI) as [RP PD]. pose proof (g_rq _ _ _ _ _ _ _ GI) as [RQ QD].
    pose proof (g_pm _ _ _ _ _ _ _ GI) as PM. pose proof (g_qm _ _ _ _ _ _ _ GI) as QM.
    pose proof (cum_bounds (jleap py) pm PM). pose proof (cum_bounds (gleap qy) qm QM).
    pose proof (J0_step py). pose proof (G0_step qy). pose proof (g_pq _ _ _ _ _ _ _ GI) as PQ.
    unfold jdn_j, jdn_g, ym_ltP in *.
    (* old days exist: y <= py; new days exist: y >= qy; hence y = py = qy *)
    assert (y <= py).
    { destruct (Z.le_gt_cases y py); [assumption|exfalso].
      assert (J0 (py + 1) <= J0 y). { destruct (Z.eq_dec (py + 1) y) as [<-|]; [lia|]. pose proof (J0_mono (py + 1) y ltac:(lia)). lia. } lia. }
    assert (qy <= y).
    { destruct (Z.le_gt_cases qy y); [assumption|exfalso].
      assert (G0 (y + 1) <= G0 qy). { destruct (Z.eq_dec (y + 1) qy) as [<-|]; [lia|]. pose proof (G0_mono (y + 1) qy ltac:(lia)). lia. } lia. }
    assert (y = py) by lia. assert (y = qy) by lia. subst. lia.
Qed.

Theorem year_count_is c y : ValidCal c -> CountIs (InYear c y) (year_count c y).
Proof.
  intros V. pose proof (year_interval c y V) as E. cbv zeta in E.
  eapply count_of_interval; [|exact E].
  unfold year_count. pose proof (ylen_bounds (jleap y)). pose proof (ylen_bounds (gleap y)). destruct c; cbn [old_days new_days]; lia.
Qed.

(* ------------------------------------------------------------------ months *)
Lemma lbl_month_iff_j j y m : 1 <= m <= 12 ->
  (l_year (jlabel j) = y /\ l_month (jlabel j) = m) <-> jdn_j y m 1 <= j < jdn_j y m 1 + mlen (jleap y) m.
Proof.
  intros Mr. pose proof (jlabel_valid j) as V. destruct (jlabel j) as [[y' m'] d'] eqn:E. cbn [l_year l_month fst snd].
  destruct V as [[Vm Vd] J]. split.
  - intros [-> ->]. unfold jdn_j in *. lia.
  - intros B. assert (X : jlabel j = (y, m, j - jdn_j y m 1 + 1)).
    { apply jlabel_iff. unfold valid_md, jdn_j in *. split; lia. }
    rewrite E in X. inversion X; auto.
Qed.
Lemma lbl_month_iff_g j y m : 1 <= m <= 12 ->
  (l_year (glabel j) = y /\ l_month (glabel j) = m) <-> jdn_g y m 1 <= j < jdn_g y m 1 + mlen (gleap y) m.
Proof.
  intros Mr. pose proof (glabel_valid j) as V. destruct (glabel j) as [[y' m'] d'] eqn:E. cbn [l_year l_month fst snd].
  destruct V as [[Vm Vd] J]. split.
  - intros [-> ->]. unfold jdn_g in *. lia.
  - intros B. assert (X : glabel j = (y, m, j - jdn_g y m 1 + 1)).
    { apply glabel_iff. unfold valid_md, jdn_g in *. split; lia. }
    rewrite E in X. inversion X; auto.
Qed.

(* first day number of the month's dates *)
Definition month_lo (c : cal) (y m : Z) : Z :=
  if 0 <? old_mdays c y m then jdn_j y m 1 else jdn_g y m (new_mfirst c y m).

Lemma month_interval c y m : ValidCal c -> 1 <= m <= 12 ->
  forall j, InMonth c y m j <-> month_lo c y m <= j < month_lo c y m + month_count c y m.
Proof.
  intros V Mr. unfold month_count, month_lo.
  pose proof (mlen_bounds (jleap y) m) as MJ. pose proof (mlen_bounds (gleap y) m) as MG.
  apply (two_pieces (InMonth c y m) (jdn_j y m 1) (old_mdays c y m) (jdn_g y m (new_mfirst c y m)) (new_mdays c y m)).
  - destruct c; cbn [old_mdays]; lia.
  - destruct c; cbn [new_mdays]; lia.
  - intros j. unfold InMonth, lbl.
    destruct c as [| |r]; cbn [is_old old_mdays new_mdays new_mfirst].
    + rewrite (lbl_month_iff_j j y m Mr). lia.
    + rewrite (lbl_month_iff_g j y m Mr). unfold jdn_g. lia.
    + destruct (Z.ltb_spec j r); [rewrite (lbl_month_iff_j j y m Mr)|rewrite (lbl_month_iff_g j y m Mr)]; unfold jdn_j, jdn_g; lia.
  - destruct c as [| |r]; cbn [old_mdays new_mdays new_mfirst]; try lia.
    intros O N. cbn [ValidCal] in V. destruct (gap_info r V) as (py & pm & pd & qy & qm & qd & GI).
    (* both segments non-empty: (y, m) is the month of both boundary dates *)
    destruct (ym_lt y m py pm) eqn:C1.
    { apply ym_lt_P in C1. pose proof (g_pq _ _ _ _ _ _ _ GI) as PQ. assert (C2 : ym_ltP y m qy qm) by (unfold ym_ltP in *; lia).
      pose proof (new_less _ _ _ _ _ _ _ GI y m Mr C2) as X. cbn [new_mdays new_mfirst] in X. lia. }
    destruct (ym_eq y m py pm) eqn:C2.
    { assert (y = py /\ m = pm) as [Ey Em] by (unfold ym_eq in C2; lia).
      destruct (ym_lt y m qy qm) eqn:C3.
      - apply ym_lt_P in C3. pose proof (new_less _ _ _ _ _ _ _ GI y m Mr C3) as X. cbn [new_mdays new_mfirst] in X. lia.
      - pose proof (g_pq _ _ _ _ _ _ _ GI) as PQ. assert (y = qy /\ m = qm) as [Ey' Em'] by (unfold ym_lt, ym_ltP in *; lia).
        pose proof (g_rp _ _ _ _ _ _ _ GI) as [RP PD]. pose proof (g_rq _ _ _ _ _ _ _ GI) as [RQ QD].
        subst. unfold jdn_j, jdn_g in *. lia. }
    assert (C2' : ym_ltP py pm y m) by (unfold ym_lt, ym_eq, ym_ltP in *; lia).
    pose proof (old_greater _ _ _ _ _ _ _ GI y m Mr C2') as X. cbn [old_mdays] in X. lia.
Qed.

Theorem month_count_is c y m : ValidCal c -> 1 <= m <= 12 -> CountIs (InMonth c y m) (month_count c y m).
Proof.
  intros V Mr. eapply count_of_interval; [apply month_count_range|apply month_interval; assumption].
Qed.

(* ------------------------------------------------------------------ existence of a date *)
Theorem incal_iff c y m d : ValidCal c -> (incalb c y m d = true <-> InCal c y m d).
Proof.
  intros V. unfold InCal, incalb, lbl. split.
  - intros H.
    assert (Mr : 1 <= m <= 12) by lia.
    pose proof (mlen_bounds (jleap y) m) as MJ. pose proof (mlen_bounds (gleap y) m) as MG.
    destruct c as [| |r]; cbn [old_mdays new_mfirst is_old] in *.
    + exists (jdn_j y m d). apply jlabel_iff. unfold valid_md. split; lia.
    + exists (jdn_g y m d). apply glabel_iff. unfold valid_md. split; lia.
    + destruct ((1 <=? d) && (d <=? Z.max 0 (Z.min (mlen (jleap y) m) (r - jdn_j y m 1)))) eqn:O.
      * exists (jdn_j y m d). replace (jdn_j y m d <? r) with true by (unfold jdn_j in *; lia). apply jlabel_iff. unfold valid_md. split; lia.
      * exists (jdn_g y m d). replace (jdn_g y m d <? r) with false by (unfold jdn_g in *; lia). apply glabel_iff. unfold valid_md. split; lia.
  - intros [j E].
    destruct c as [| |r]; cbn [old_mdays new_mfirst is_old] in *.
    + apply jlabel_iff in E. destruct E as [[Vm Vd] J]. lia.
    + apply glabel_iff in E. destruct E as [[Vm Vd] J]. lia.
    + destruct (Z.ltb_spec j r).
      * apply jlabel_iff in E. destruct E as [[Vm Vd] J]. unfold jdn_j in *. lia.
      * apply glabel_iff in E. destruct E as [[Vm Vd] J]. unfold jdn_g in *. lia.
Qed.

(* ------------------------------------------------------------------ labels increase strictly *)
Theorem lbl_mono c j j' : ValidCal c -> j < j' -> lex_lt (lbl c j) (lbl c j').
Proof.
  intros V H. unfold lbl. destruct c as [| |r]; cbn [is_old].
  - apply jlabel_mono; exact H.
  - apply glabel_mono; exact H.
  - cbn [ValidCal] in V. destruct (gap_info r V) as (py & pm & pd & qy & qm & qd & GI).
    destruct (Z.ltb_spec j r), (Z.ltb_spec j' r); try lia.
    + apply jlabel_mono; exact H.
    + (* j < r <= j': through the last Julian and the first Gregorian label *)
      assert (A : jlabel j = jlabel (r - 1) \/ lex_lt (jlabel j) (jlabel (r - 1))).
      { destruct (Z.eq_dec j (r - 1)) as [->|]; [left; reflexivity|right; apply jlabel_mono; lia]. }
      assert (Bq : glabel r = glabel j' \/ lex_lt (glabel r) (glabel j')).
      { destruct (Z.eq_dec r j') as [->|]; [left; reflexivity|right; apply glabel_mono; lia]. }
      rewrite (gi_pre _ _ _ _ _ _ _ GI) in A. rewrite (gi_post _ _ _ _ _ _ _ GI) in Bq.
      pose proof (gi_lex _ _ _ _ _ _ _ GI) as L.
      destruct A as [->|A], Bq as [<-|Bq]; eauto using lex_lt_trans.
    + apply glabel_mono; exact H.
Qed.
Corollary lbl_inj c j j' : ValidCal c -> lbl c j = lbl c j' -> j = j'.
Proof.
  intros V E. destruct (Z.lt_trichotomy j j') as [L|[->|L]]; [|reflexivity|].
  - pose proof (lbl_mono c j j' V L) as X. rewrite E in X. exfalso. eapply lex_lt_irrefl; eauto.
  - pose proof (lbl_mono c j' j V L) as X. rewrite E in X. exfalso. eapply lex_lt_irrefl; eauto.
Qed.

(* ------------------------------------------------------------------ ordinals are counts of earlier dates *)
Lemma year_adjacent c y : ValidCal c -> 0 < old_days c y -> 0 < new_days c y -> new_start c y = J0 y + old_days c y.
Proof.
  intros V O N. pose proof (year_interval c y V) as E. cbv zeta in E. replace (0 <? old_days c y) with true in E by lia.
  (* the last old-style day and the first new-style day are both in the year; nothing lies between them *)
  pose proof (J0_step y) as JS. pose proof (G0_step y) as GS. pose proof (ylen_bounds (jleap y)). pose proof (ylen_bounds (gleap y)).
  unfold year_count in E.
  assert (In1 : InYear c y (new_start c y)).
  { unfold InYear. rewrite lbl_year_eq. destruct c as [| |r]; cbn [is_old old_days new_days new_start] in *; try lia.
    replace (Z.max r (G0 y) <? r) with false by lia. apply gyear_iff. lia. }
  assert (In2 : InYear c y (J0 y + old_days c y - 1)).
  { unfold InYear. rewrite lbl_year_eq. destruct c as [| |r]; cbn [is_old old_days new_days new_start] in *; try lia.
    replace (J0 y + Z.max 0 (Z.min r (J0 (y + 1)) - J0 y) - 1 <? r) with true by lia. apply jyear_iff. lia. }
  apply E in In1. 
  destruct (Z.lt_trichotomy (new_start c y) (J0 y + old_days c y)) as [L|[Eq|G]]; [|exact Eq|].
  - exfalso. destruct c as [| |r]; cbn [old_days new_days new_start] in *; lia.
  - exfalso. (* a day strictly between would be in the year by the interval but is neither old nor new *)
    assert (Mid : InYear c y (J0 y + old_days c y)) by (apply E; lia).
    unfold InYear in Mid. rewrite lbl_year_eq in Mid.
    destruct c as [| |r]; cbn [is_old old_days new_days new_start] in *; try lia.
    destruct (Z.ltb_spec (J0 y + Z.max 0 (Z.min r (J0 (y + 1)) - J0 y)) r); [apply jyear_iff in Mid|apply gyear_iff in Mid]; lia.
Qed.

Theorem ordinal_is c j : ValidCal c -> OrdinalIs c j (ordinal_of c j).
Proof.
  intros V. unfold OrdinalIs. set (y := l_year (lbl c j)).
  pose proof (year_interval c y V) as E. cbv zeta in E. set (a := if 0 <? old_days c y then J0 y else new_start c y) in *.
  assert (Self : InYear c y j) by reflexivity. pose proof (proj1 (E j) Self) as SB.
  exists a. split; [lia|]. split.
  - intros j'. rewrite E. lia.
  - unfold ordinal_of. subst a. unfold y in *. rewrite lbl_year_eq in *.
    pose proof (J0_step (jyear j)). pose proof (G0_step (gyear j)).
    pose proof (jyear_spec j) as JY. pose proof (gyear_spec j) as GY.
    destruct (is_old c j) eqn:IO.
    + assert (0 < old_days c (jyear j)).
      { destruct c as [| |r]; cbn [is_old old_days] in *; try discriminate; [pose proof (ylen_bounds (jleap (jyear j))); lia|lia]. }
      replace (0 <? old_days c (jyear j)) with true in * by lia. lia.
    + assert (NS : new_start c (gyear j) <= j /\ 0 < new_days c (gyear j)).
      { destruct c as [| |r]; cbn [is_old new_start new_days] in *; try discriminate; [pose proof (ylen_bounds (gleap (gyear j))); lia|lia]. }
      destruct (Z.ltb_spec 0 (old_days c (gyear j))) as [O|O].
      * rewrite (year_adjacent c (gyear j) V O (proj2 NS)). lia.
      * assert (old_days c (gyear j) = 0). { pose proof (ylen_bounds (jleap (gyear j))). destruct c; cbn [old_days] in *; lia. } lia.
Qed.

Lemma month_adjacent c y m : ValidCal c -> 1 <= m <= 12 -> 0 < old_mdays c y m -> 0 < new_mdays c y m ->
  jdn_g y m (new_mfirst c y m) = jdn_j y m 1 + old_mdays c y m.
Proof.
  intros V Mr O N. destruct c as [| |r]; cbn [old_mdays new_mdays new_mfirst] in *; try lia.
  cbn [ValidCal] in V. destruct (gap_info r V) as (py & pm & pd & qy & qm & qd & GI).
  pose proof (mlen_bounds (jleap y) m) as MJ. pose proof (mlen_bounds (gleap y) m) as MG.
  destruct (ym_lt y m py pm) eqn:C1.
  { apply ym_lt_P in C1. pose proof (g_pq _ _ _ _ _ _ _ GI) as PQ. assert (C2 : ym_ltP y m qy qm) by (unfold ym_ltP in *; lia).
    pose proof (new_less _ _ _ _ _ _ _ GI y m Mr C2) as X. cbn [new_mdays new_mfirst] in X. lia. }
  destruct (ym_eq y m py pm) eqn:C2.
  { assert (y = py /\ m = pm) as [Ey Em] by (unfold ym_eq in C2; lia).
    destruct (ym_lt y m qy qm) eqn:C3.
    - apply ym_lt_P in C3. pose proof (new_less _ _ _ _ _ _ _ GI y m Mr C3) as X. cbn [new_mdays new_mfirst] in X. lia.
    - pose proof (g_pq _ _ _ _ _ _ _ GI) as PQ. assert (y = qy /\ m = qm) as [Ey' Em'] by (unfold ym_lt, ym_ltP in *; lia).
      pose proof (g_rp _ _ _ _ _ _ _ GI) as [RP PD]. pose proof (g_rq _ _ _ _ _ _ _ GI) as [RQ QD].
      subst. unfold jdn_j, jdn_g in *. lia. }
  assert (C2' : ym_ltP py pm y m) by (unfold ym_lt, ym_eq, ym_ltP in *; lia).
  pose proof (old_greater _ _ _ _ _ _ _ GI y m Mr C2') as X. cbn [old_mdays] in X. lia.
Qed.

Theorem day_ordinal_is c j : ValidCal c -> DayOrdinalIs c j (day_ordinal_of c j).
Proof.
  intros V. unfold DayOrdinalIs, day_ordinal_of.
  destruct (lbl c j) as [[y m] d] eqn:EL. cbn [l_year l_month fst snd].
  assert (Mr : 1 <= m <= 12).
  { unfold lbl in EL. destruct (is_old c j); [apply jlabel_iff in EL|apply glabel_iff in EL]; destruct EL as [[? ?] _]; assumption. }
  pose proof (month_interval c y m V Mr) as E.
  assert (Self : InMonth c y m j) by (unfold InMonth; rewrite EL; split; reflexivity).
  pose proof (proj1 (E j) Self) as SB.
  exists (month_lo c y m). split; [lia|]. split.
  - intros j'. rewrite E. lia.
  - unfold month_lo in *. unfold lbl in EL.
    pose proof (mlen_bounds (jleap y) m) as MJ. pose proof (mlen_bounds (gleap y) m) as MG.
    destruct (is_old c j) eqn:IO.
    + apply jlabel_iff in EL. destruct EL as [[_ Vd] J].
      assert (0 < old_mdays c y m).
      { destruct c as [| |r]; cbn [is_old old_mdays] in *; try discriminate; unfold jdn_j in *; lia. }
      replace (0 <? old_mdays c y m) with true in * by lia. unfold jdn_j in *. lia.
    + apply glabel_iff in EL. destruct EL as [[_ Vd] J].
      assert (NS : new_mfirst c y m <= d /\ 0 < new_mdays c y m).
      { destruct c as [| |r]; cbn [is_old new_mfirst new_mdays] in *; try discriminate; unfold jdn_g in *; lia. }
      destruct (Z.ltb_spec 0 (old_mdays c y m)) as [O|O].
      * pose proof (month_adjacent c y m V Mr O (proj2 NS)) as A. unfold jdn_j, jdn_g in *. lia.
      * assert (old_mdays c y m = 0). { destruct c; cbn [old_mdays] in *; lia. } unfold jdn_g in *. lia.
Qed.

(* the last date of a year carries the year's length *)
Theorem last_day_ordinal c j : ValidCal c -> l_year (lbl c (j + 1)) <> l_year (lbl c j) ->
  ordinal_of c j = year_count c (l_year (lbl c j)).
Proof.
  intros V NE. destruct (ordinal_is c j V) as (j0 & J0le & B & O). set (y := l_year (lbl c j)) in *.
  pose proof (year_interval c y V) as E. cbv zeta in E. set (a := if 0 <? old_days c y then J0 y else new_start c y) in *.
  assert (Self : InYear c y j) by reflexivity. pose proof (proj1 (E j) Self) as SB.
  assert (Next : ~ InYear c y (j + 1)) by (unfold InYear; fold y; exact NE).
  rewrite E in Next.
  assert (j0 = a).
  { destruct (Z.lt_trichotomy j0 a) as [L|[Eq|G]]; [|exact Eq|].
    - destruct (Z.le_gt_cases j j0) as [Le|Gt].
      + (* no earlier date: then a = j *) pose proof (proj1 (B (j - 1))) as X. rewrite E in X. lia.
      + pose proof (proj2 (B j0) ltac:(lia)) as [_ X]. apply E in X. lia.
    - pose proof (proj1 (B a)) as X. rewrite E in X. lia. }
  lia.
Qed.
