(* Glue_C11_labels.v — proofs of the statements of Properties/C11_labels.v that need a few steps beyond a library lemma
   (rephrasing only: no induction, no case analysis of the model).  The scripts were moved out of the property file so
   that it contains nothing but statements closed by [exact]. *)
From JV Require Import Sem Gen Spec SpecX.
From JV.Hand Require Import Order.
From JV.Proofs Require Import SpecFacts Cal Core CoreOrder SpecSets AtJdn.
Open Scope Z_scope.

Lemma C11_year_ordinal_monotone_lemma : forall c j j', ValidCal c -> in_i32 j -> in_i32 j' -> j < j' ->
  exists d d', Calendar_at_jdn (cal_of c) j = Ret d /\ Calendar_at_jdn (cal_of c) j' = Ret d' /\
    (Date_f_year d < Date_f_year d' \/ (Date_f_year d = Date_f_year d' /\ Date_f_ordinal d < Date_f_ordinal d')).
Proof.
  intros c j j' V H H' L. exists (date_of c j), (date_of c j'). split; [apply at_jdn_ok; assumption|]. split; [apply at_jdn_ok; assumption|].
  destruct (SuccPred.date_of_fields c j) as (_ & Fy & Fo & _). destruct (SuccPred.date_of_fields c j') as (_ & Fy' & Fo' & _).
  rewrite Fy, Fo, Fy', Fo'. apply year_ordinal_monotone; assumption.
Qed.

