(* SpecOrd.v — spec-level: the day-of-year of a date locates its month and its position in the month.
   For every day j of a calendar with label (y, m, d): the ordinal lies in month m's slice of the year,
   the offset in that slice is the day ordinal, and the shape's enumeration returns d at that offset. *)
From JV Require Import Sem Gen Spec SpecX.
From JV.Proofs Require Import SpecFacts GapFacts Cal Cmp MonthGeom Shape Month MonthSpec SpecSums Walk.
Import ListNotations.
Open Scope Z_scope.
Ltac Zify.zify_post_hook ::= Z.to_euclidean_division_equations.

Lemma msum_le c y m m' : 1 <= m -> m <= m' -> m' <= 13 -> msum c y m <= msum c y m'.
Proof.
  intros A B C. assert (E : m' = m + Z.of_nat (Z.to_nat (m' - m))) by lia. rewrite E. clear E.
  assert (Hn : m + Z.of_nat (Z.to_nat (m' - m)) <= 13) by lia. revert Hn.
  generalize (Z.to_nat (m' - m)) as n. clear B C m'. induction n as [|n IH]; intros Hn.
  - replace (m + Z.of_nat 0) with m by lia. lia.
  - replace (m + Z.of_nat (S n)) with (m + Z.of_nat n + 1) in * by lia.
    pose proof (msum_mono c y (m + Z.of_nat n) ltac:(lia)). specialize (IH ltac:(lia)). lia.
Qed.

Lemma locate_unique c y m o : 1 <= m <= 12 -> msum c y m < o <= msum c y (m + 1) ->
  locate c y o = Some (m, o - msum c y m).
Proof.
  intros Mr B.
  assert (R : 1 <= o <= year_count c y).
  { rewrite <- msum_total. pose proof (msum_le c y 1 m ltac:(lia) ltac:(lia) ltac:(lia)). rewrite msum_1 in *.
    pose proof (msum_le c y (m + 1) 13 ltac:(lia) ltac:(lia) ltac:(lia)). lia. }
  destruct (locate_spec c y o R) as (m' & Mr' & L & B'). rewrite L.
  destruct (Z.lt_trichotomy m m') as [Lt|[->|Gt]]; [|reflexivity|].
  - pose proof (msum_le c y (m + 1) m' ltac:(lia) ltac:(lia) ltac:(lia)). lia.
  - pose proof (msum_le c y (m' + 1) m ltac:(lia) ltac:(lia) ltac:(lia)). lia.
Qed.

(* for old-style days the enumeration is the identity below the gap *)
Lemma sh_nth_old c y m d : ValidCal c -> 1 <= m <= 12 -> 1 <= d <= old_mdays c y m ->
  sh_nth (shape_of c y m) d = d.
Proof.
  intros V Mr D. unfold shape_of, shape_from.
  destruct (new_mdays c y m =? 0); [destruct (old_mdays c y m =? natural_len c y m); reflexivity|].
  destruct (Z.eqb_spec (old_mdays c y m) 0); [lia|]. cbn [sh_nth]. replace (d <? old_mdays c y m + 1) with true by lia. reflexivity.
Qed.
Lemma sh_nth_new c y m d : ValidCal c -> 1 <= m <= 12 -> new_mfirst c y m <= d <= mlen (gleap y) m -> c <> CJ ->
  sh_nth (shape_of c y m) (old_mdays c y m + (d - new_mfirst c y m) + 1) = d.
Proof.
  intros V Mr D NJ. destruct (month_facts c y m V Mr) as [O F N NL OO NN GP].
  assert (N' : new_mdays c y m = Z.max 0 (mlen (gleap y) m - new_mfirst c y m + 1)) by (destruct N as [N|[E _]]; [exact N|contradiction]).
  unfold shape_of, shape_from.
  destruct (Z.eqb_spec (new_mdays c y m) 0); [lia|].
  destruct (Z.eqb_spec (old_mdays c y m) 0) as [O0|O0].
  - destruct (Z.eqb_spec (new_mfirst c y m) 1); cbn [sh_nth]; lia.
  - specialize (GP ltac:(lia) ltac:(lia)). cbn [sh_nth].
    replace (old_mdays c y m + (d - new_mfirst c y m) + 1 <? old_mdays c y m + 1) with false by lia. lia.
Qed.

Definition OrdLocate (c : cal) (j : Z) : Prop :=
  let '(y, m, d) := lbl c j in
  1 <= m <= 12 /\ msum c y m < ordinal_of c j <= msum c y (m + 1) /\
  ordinal_of c j - msum c y m = day_ordinal_of c j /\
  sh_nth (shape_of c y m) (day_ordinal_of c j) = d.

Lemma cum13_le l m : 1 <= m <= 12 -> cum13 l m = cum l m /\ cum13 l (m + 1) = cum l m + mlen l m.
Proof. intros H. split; [apply cum13_cum; exact H|]. rewrite cum13_succ by exact H. rewrite cum13_cum by exact H. reflexivity. Qed.

Lemma ord_locate_julian j : OrdLocate CJ j.
Proof.
  unfold OrdLocate, lbl, ordinal_of, day_ordinal_of, lbl. cbn [is_old].
  pose proof (jlabel_valid j) as V. destruct (jlabel j) as [[y m] d] eqn:E. destruct V as [[Mr Dr] J].
  assert (Y : jyear j = y). { apply jyear_unique. unfold jdn_j in J. pose proof (cum_bounds (jleap y) m Mr). pose proof (J0_step y). lia. }
  rewrite Y. rewrite !msum_closed by lia. cbn [osum nsum]. destruct (cum13_le (jleap y) m Mr) as [-> ->].
  unfold jdn_j in J. split; [exact Mr|]. split; [lia|]. split; [lia|].
  apply sh_nth_old; cbn; auto.
Qed.
Lemma ord_locate_gregorian j : OrdLocate CG j.
Proof.
  unfold OrdLocate, lbl, ordinal_of, day_ordinal_of, lbl. cbn [is_old].
  pose proof (glabel_valid j) as V. destruct (glabel j) as [[y m] d] eqn:E. destruct V as [[Mr Dr] J].
  assert (Y : gyear j = y). { apply gyear_unique. unfold jdn_g in J. pose proof (cum_bounds (gleap y) m Mr). pose proof (G0_step y). lia. }
  rewrite Y. rewrite !msum_closed by lia. cbn [osum nsum old_days new_start old_mdays new_mfirst]. destruct (cum13_le (gleap y) m Mr) as [-> ->].
  unfold jdn_g in J. split; [exact Mr|]. split; [lia|]. split; [lia|].
  replace (0 + (d - 1) + 1) with (old_mdays CG y m + (d - new_mfirst CG y m) + 1) by (cbn; lia).
  apply sh_nth_new; cbn; auto; try lia. discriminate.
Qed.

Section Reforming.
  Variables (r py pm pd qy qm qd : Z).
  Hypothesis GI : GapInfo r py pm pd qy qm qd.
  Hypothesis VR : ValidR r.

  Lemma ord_locate_old j : j < r -> OrdLocate (CR r) j.
  Proof.
    intros Hj. unfold OrdLocate, lbl, ordinal_of, day_ordinal_of, lbl. cbn [is_old]. replace (j <? r) with true by lia.
    pose proof (jlabel_valid j) as V. destruct (jlabel j) as [[y m] d] eqn:E. destruct V as [[Mr Dr] J].
    assert (Y : jyear j = y). { apply jyear_unique. unfold jdn_j in J. pose proof (cum_bounds (jleap y) m Mr). pose proof (J0_step y). lia. }
    rewrite Y. rewrite !msum_closed by lia. cbn [osum nsum].
    destruct (cum13_le (jleap y) m Mr) as [-> ->]. destruct (cum13_le (gleap y) m Mr) as [-> ->].
    pose proof (g_pm _ _ _ _ _ _ _ GI) as PM. pose proof (g_qm _ _ _ _ _ _ _ GI) as QM.
    pose proof (g_rp _ _ _ _ _ _ _ GI) as [RP PD]. pose proof (g_rq _ _ _ _ _ _ _ GI) as [RQ QD].
    pose proof (g_pq _ _ _ _ _ _ _ GI) as PQ.
    pose proof (cum_bounds (jleap y) m Mr) as CJb. pose proof (cum_bounds (gleap y) m Mr) as CGb.
    pose proof (mlen_bounds (gleap y) m) as MG.
    (* (y, m) is not after the month of the last Julian date *)
    assert (LE : ym_ltP y m py pm \/ (y = py /\ m = pm)).
    { destruct (gi_vp _ _ _ _ _ _ _ GI) as [VPm VPd].
      destruct (Z.eq_dec j (r - 1)) as [->|N].
      - rewrite (gi_pre _ _ _ _ _ _ _ GI) in E. inversion E; subst. right; auto.
      - assert (L : lex_lt (y, m, d) (py, pm, pd)).
        { apply (jdn_j_lex y m d py pm pd); [split; assumption|split; assumption|]. rewrite (gi_ep _ _ _ _ _ _ _ GI). lia. }
        unfold lex_lt, l_year, l_month, l_day, ym_ltP in *. cbn [fst snd] in L. lia. }
    (* hence the Gregorian month (y, m) starts no later than r *)
    assert (GS : jdn_g y m 1 <= r).
    { assert (LQ : ym_ltP y m qy qm \/ (y = qy /\ m = qm)) by (unfold ym_ltP in *; lia).
      destruct LQ as [LQ|[-> ->]].
      - pose proof (month_before_g y m qy qm Mr QM LQ). lia.
      - lia. }
    unfold jdn_j, jdn_g, clamp in *.
    split; [exact Mr|]. split; [lia|]. split; [lia|].
    apply sh_nth_old; [exact VR|exact Mr|]. cbn [old_mdays]. unfold jdn_j. lia.
  Qed.

  Lemma ord_locate_new j : r <= j -> OrdLocate (CR r) j.
  Proof.
    intros Hj. unfold OrdLocate, lbl, ordinal_of, day_ordinal_of, lbl. cbn [is_old]. replace (j <? r) with false by lia.
    pose proof (glabel_valid j) as V. destruct (glabel j) as [[y m] d] eqn:E. destruct V as [[Mr Dr] J].
    assert (Y : gyear j = y). { apply gyear_unique. unfold jdn_g in J. pose proof (cum_bounds (gleap y) m Mr). pose proof (G0_step y). lia. }
    rewrite Y. rewrite !msum_closed by lia. cbn [osum nsum old_days new_start].
    destruct (cum13_le (jleap y) m Mr) as [-> ->]. destruct (cum13_le (gleap y) m Mr) as [-> ->].
    pose proof (g_pm _ _ _ _ _ _ _ GI) as PM. pose proof (g_qm _ _ _ _ _ _ _ GI) as QM.
    pose proof (g_rp _ _ _ _ _ _ _ GI) as [RP PD]. pose proof (g_rq _ _ _ _ _ _ _ GI) as [RQ QD].
    pose proof (g_pq _ _ _ _ _ _ _ GI) as PQ.
    pose proof (cum_bounds (jleap y) m Mr) as CJb. pose proof (cum_bounds (gleap y) m Mr) as CGb.
    pose proof (mlen_bounds (gleap y) m) as MG. pose proof (mlen_bounds (jleap y) m) as MJ.
    pose proof (J0_step y) as JS. pose proof (G0_step y) as GSt.
    pose proof (ylen_bounds (jleap y)). pose proof (ylen_bounds (gleap y)).
    (* (y, m) is not before the month of the first Gregorian date *)
    assert (GE : ym_ltP qy qm y m \/ (y = qy /\ m = qm /\ qd <= d)).
    { destruct (gi_vq _ _ _ _ _ _ _ GI) as [VQm VQd].
      pose proof (jdn_g_lex_le qy qm qd y m d ltac:(split; assumption) ltac:(split; assumption) ltac:(rewrite (gi_eq _ _ _ _ _ _ _ GI); lia)) as L.
      unfold ym_ltP. lia. }
    (* so the Julian month (y, m) holds no day at or after its own start unless it is the boundary month *)
    assert (OM : ym_ltP py pm y m -> jdn_j y m 1 >= r).
    { intros L. pose proof (month_before_j py pm y m PM Mr L). lia. }
    split; [exact Mr|].
    destruct GE as [G|(-> & -> & QDd)].
    - (* strictly after the boundary month: the whole Gregorian month exists, no old-style day in it *)
      assert (PL : ym_ltP py pm y m) by (unfold ym_ltP in *; lia).
      specialize (OM PL). pose proof (month_before_g qy qm y m QM Mr G) as NB.
      assert (NF : new_mfirst (CR r) y m = 1) by (cbn [new_mfirst]; lia).
      assert (OD : old_mdays (CR r) y m = 0) by (cbn [old_mdays]; lia).
      rewrite NF, OD. unfold jdn_j, jdn_g, clamp in *.
      split; [lia|]. split; [lia|].
      replace (0 + (d - 1) + 1) with (old_mdays (CR r) y m + (d - new_mfirst (CR r) y m) + 1) by lia.
      apply sh_nth_new; [exact VR|exact Mr|lia|discriminate].
    - (* the month of the first Gregorian date *)
      assert (NF : new_mfirst (CR r) qy qm = qd) by (cbn [new_mfirst]; lia).
      rewrite NF.
      destruct PQ as [PL|(-> & -> & PQd)].
      + specialize (OM PL).
        assert (OD : old_mdays (CR r) qy qm = 0) by (cbn [old_mdays]; lia).
        rewrite OD. unfold jdn_j, jdn_g, clamp in *.
        split; [lia|]. split; [lia|].
        replace (0 + (d - qd) + 1) with (old_mdays (CR r) qy qm + (d - new_mfirst (CR r) qy qm) + 1) by lia.
        apply sh_nth_new; [exact VR|exact Mr|lia|discriminate].
      + assert (OD : old_mdays (CR r) qy qm = pd) by (cbn [old_mdays]; lia).
        rewrite OD. unfold jdn_j, jdn_g, clamp in *.
        split; [lia|]. split; [lia|].
        replace (pd + (d - qd) + 1) with (old_mdays (CR r) qy qm + (d - new_mfirst (CR r) qy qm) + 1) by lia.
        apply sh_nth_new; [exact VR|exact Mr|lia|discriminate].
  Qed.
End Reforming.

Theorem ord_locate c j : ValidCal c -> OrdLocate c j.
Proof.
  intros V. destruct c as [| |r].
  - apply ord_locate_julian.
  - apply ord_locate_gregorian.
  - cbn [ValidCal] in V. destruct (gap_info r V) as (py & pm & pd & qy & qm & qd & GI).
    destruct (Z.lt_ge_cases j r); [eapply ord_locate_old|eapply ord_locate_new]; eauto; lia.
Qed.
