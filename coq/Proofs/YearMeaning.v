(* YearMeaning.v — the executable year classification of Spec.v (old_days, new_days, year_kind_of) in the words of
   property C08: sets of days of the year on either side of the reformation. *)
From JV Require Import Sem Gen Spec SpecX.
From JV.Proofs Require Import SpecFacts GapFacts Cal SpecSets.
Open Scope Z_scope.
Ltac Zify.zify_post_hook ::= Z.to_euclidean_division_equations.

Definition AllOld (c : cal) (y : Z) : Prop := forall j, InYear c y j -> is_old c j = true.
Definition AllNew (c : cal) (y : Z) : Prop := forall j, InYear c y j -> is_old c j = false.

(* old_days / new_days count the old-style / new-style dates of the year *)
Theorem old_new_days_count c y : ValidCal c ->
  CountIs (fun j => InYear c y j /\ is_old c j = true) (old_days c y) /\
  CountIs (fun j => InYear c y j /\ is_old c j = false) (new_days c y).
Proof.
  intros V. pose proof (J0_step y) as JS. pose proof (G0_step y) as GS. pose proof (ylen_bounds (jleap y)). pose proof (ylen_bounds (gleap y)).
  split.
  - apply (count_of_interval _ (J0 y)).
    + destruct c; cbn [old_days]; lia.
    + intros j. unfold InYear. rewrite lbl_year_eq. destruct c as [| |r]; cbn [is_old old_days].
      * rewrite jyear_iff. lia.
      * split; [intros [_ X]; discriminate|lia].
      * destruct (Z.ltb_spec j r); [rewrite jyear_iff|rewrite gyear_iff]; split; intros; lia.
  - apply (count_of_interval _ (new_start c y)).
    + destruct c; cbn [new_days]; lia.
    + intros j. unfold InYear. rewrite lbl_year_eq. destruct c as [| |r]; cbn [is_old new_days new_start].
      * split; [intros [_ X]; discriminate|lia].
      * rewrite gyear_iff. lia.
      * destruct (Z.ltb_spec j r); [rewrite jyear_iff|rewrite gyear_iff]; split; intros; lia.
Qed.

Lemma new_days_zero_iff c y : ValidCal c -> (new_days c y = 0 <-> AllOld c y).
Proof.
  intros V. destruct (old_new_days_count c y V) as [_ [[Z0 N]|[P (a & I)]]]; split; intros X.
  - intros j Hj. destruct (is_old c j) eqn:E; [reflexivity|]. exfalso. apply (N j). auto.
  - exact Z0.
  - lia.
  - exfalso. assert (A : InYear c y a /\ is_old c a = false) by (apply I; lia). destruct A as [A1 A2]. rewrite (X a A1) in A2. discriminate.
Qed.
Lemma old_days_zero_iff c y : ValidCal c -> (old_days c y = 0 <-> AllNew c y).
Proof.
  intros V. destruct (old_new_days_count c y V) as [[[Z0 N]|[P (a & I)]] _]; split; intros X.
  - intros j Hj. destruct (is_old c j) eqn:E; [|reflexivity]. exfalso. apply (N j). auto.
  - exact Z0.
  - lia.
  - exfalso. assert (A : InYear c y a /\ is_old c a = true) by (apply I; lia). destruct A as [A1 A2]. rewrite (X a A1) in A2. discriminate.
Qed.

(* the year kind, in the property's words *)
Theorem year_kind_meaning c y : ValidCal c ->
  let n := year_count c y in
  let k := year_kind_of c y in
  (k = KSkipped <-> n = 0) /\
  ((k = KCommon \/ k = KLeap) <->
     0 < n /\ ((AllOld c y /\ n = ylen (jleap y)) \/ (AllNew c y /\ n = ylen (gleap y)))) /\
  (k = KLeap -> n = 366 /\ ((AllOld c y /\ jleap y = true) \/ (AllNew c y /\ gleap y = true))) /\
  (k = KCommon -> n = 365 /\ ((AllOld c y /\ jleap y = false) \/ (AllNew c y /\ gleap y = false))) /\
  (k = KReformLeap -> 0 < n /\ InCal c y 2 29) /\
  (k = KReformCommon -> 0 < n /\ ~ InCal c y 2 29).
Proof.
  intros V. cbv zeta.
  unfold AllOld, AllNew. fold (AllOld c y). fold (AllNew c y).
  rewrite <- (new_days_zero_iff c y V), <- (old_days_zero_iff c y V), <- (incal_iff c y 2 29 V).
  assert (ON : 0 <= old_days c y /\ 0 <= new_days c y).
  { pose proof (ylen_bounds (jleap y)). pose proof (ylen_bounds (gleap y)). destruct c; cbn [old_days new_days]; lia. }
  unfold year_kind_of, year_count.
  set (od := old_days c y) in *. set (nd := new_days c y) in *. set (b := incalb c y 2 29). clearbody od nd b.
  destruct (jleap y), (gleap y), b; cbn [ylen];
    repeat match goal with |- context[Z.eqb ?u ?v] => destruct (Z.eqb_spec u v) end; cbn [andb];
    repeat split; intros; intuition (try discriminate; try lia).
Qed.
