(* IterCore.v — the iterator theorems of IterProofs.v (stated there under hypotheses about the step functions and
   the month shape) with those hypotheses DISCHARGED from the core development: for every calendar a user can
   hold, every start day, every month, every length of run. *)
From JV Require Import Sem Gen Spec SpecX.
From JV.Hand Require Import Iter.
From JV.Proofs Require Import SpecFacts Inner Cal Shape MonthSpec Month SpecSums SpecOrd SpecInv SpecSets SpecStep AtYmd AtJdn SuccPred IterProofs.
From JV.Proofs Require Export NthDate.
Import List ListNotations.
Open Scope Z_scope.
Ltac Zify.zify_post_hook ::= Z.to_euclidean_division_equations.

(* ------------------------------------------------------------------ C10: later / earlier / and_later / and_earlier *)
(* [day_or_none c j] (NthDate.v) = the date of day j in calendar c when j is a 32-bit day number, nothing otherwise *)

Section Open.
  Context (c : cal) (V : ValidCal c).
  Definition on_cal (d : Date) : Prop := exists j, in_i32 j /\ d = date_of c j.
  Definition fsucc (d : Date) : option Date := day_or_none c (Date_f_jdn d + 1).
  Definition fpred (d : Date) : option Date := day_or_none c (Date_f_jdn d - 1).

  Lemma succ_on d : on_cal d -> Date_succ d = Ret (fsucc d).
  Proof.
    intros (j & H & ->). rewrite succ_ok by assumption. unfold fsucc, day_or_none.
    destruct (date_of_fields c j) as (_ & _ & _ & Fj & _). rewrite Fj.
    destruct (Z.ltb_spec j i32_max); [rewrite in_i32b_true by range|rewrite in_i32b_false by (unfold in_i32 in *; range)]; reflexivity.
  Qed.
  Lemma pred_on d : on_cal d -> Date_pred d = Ret (fpred d).
  Proof.
    intros (j & H & ->). rewrite pred_ok by assumption. unfold fpred, day_or_none.
    destruct (date_of_fields c j) as (_ & _ & _ & Fj & _). rewrite Fj.
    destruct (Z.ltb_spec i32_min j); [rewrite in_i32b_true by range|rewrite in_i32b_false by (unfold in_i32 in *; range)]; reflexivity.
  Qed.
  Lemma fsucc_on d d' : on_cal d -> fsucc d = Some d' -> on_cal d'.
  Proof.
    intros _. unfold fsucc, day_or_none. destruct (in_i32b (Date_f_jdn d + 1)) eqn:E; [|discriminate].
    intros X. inversion X. eexists. split; [apply in_i32b_iff; exact E|reflexivity].
  Qed.
  Lemma fpred_on d d' : on_cal d -> fpred d = Some d' -> on_cal d'.
  Proof.
    intros _. unfold fpred, day_or_none. destruct (in_i32b (Date_f_jdn d - 1)) eqn:E; [|discriminate].
    intros X. inversion X. eexists. split; [apply in_i32b_iff; exact E|reflexivity].
  Qed.

  (* n steps forward from day j: day j + n, or nothing once past the top of the range (and nothing ever after) *)
  Lemma oiter_fsucc n : forall j, in_i32 j -> oiter fsucc n (Some (date_of c j)) = day_or_none c (j + Z.of_nat n).
  Proof.
    induction n as [|n IH]; intros j H.
    - cbn [oiter]. unfold day_or_none. rewrite Z.add_0_r, in_i32b_true by assumption. reflexivity.
    - cbn [oiter obind]. destruct (date_of_fields c j) as (_ & _ & _ & Fj & _).
      replace (fsucc (date_of c j)) with (day_or_none c (j + 1)) by (unfold fsucc; rewrite Fj; reflexivity).
      unfold day_or_none at 1. destruct (in_i32b (j + 1)) eqn:E.
      + apply in_i32b_iff in E. rewrite IH by assumption. f_equal. lia.
      + rewrite oiter_none. unfold day_or_none. rewrite in_i32b_false; [reflexivity|].
        intros X. assert (~ in_i32 (j + 1)) by (intros Y; apply in_i32b_iff in Y; congruence). unfold in_i32 in *. range.
  Qed.
  Lemma oiter_fpred n : forall j, in_i32 j -> oiter fpred n (Some (date_of c j)) = day_or_none c (j - Z.of_nat n).
  Proof.
    induction n as [|n IH]; intros j H.
    - cbn [oiter]. unfold day_or_none. rewrite Z.sub_0_r, in_i32b_true by assumption. reflexivity.
    - cbn [oiter obind]. destruct (date_of_fields c j) as (_ & _ & _ & Fj & _).
      replace (fpred (date_of c j)) with (day_or_none c (j - 1)) by (unfold fpred; rewrite Fj; reflexivity).
      unfold day_or_none at 1. destruct (in_i32b (j - 1)) eqn:E.
      + apply in_i32b_iff in E. rewrite IH by assumption. f_equal. lia.
      + rewrite oiter_none. unfold day_or_none. rewrite in_i32b_false; [reflexivity|].
        intros X. assert (~ in_i32 (j - 1)) by (intros Y; apply in_i32b_iff in Y; congruence). unfold in_i32 in *. range.
  Qed.

  Theorem later_closed j n : in_i32 j ->
    later_take n (date_of c j) = Ret (map (fun i => day_or_none c (j + 1 + Z.of_nat i)) (seq 0 n)).
  Proof.
    intros H. rewrite (later_spec on_cal fsucc succ_on fsucc_on) by (exists j; auto). f_equal.
    apply map_ext. intros i. rewrite oiter_fsucc by assumption. f_equal. lia.
  Qed.
  Theorem and_later_closed j n : in_i32 j ->
    and_later_take n (date_of c j) = Ret (map (fun i => day_or_none c (j + Z.of_nat i)) (seq 0 n)).
  Proof.
    intros H. rewrite (and_later_spec on_cal fsucc succ_on fsucc_on) by (exists j; auto). f_equal.
    apply map_ext. intros i. apply oiter_fsucc. assumption.
  Qed.
  Theorem earlier_closed j n : in_i32 j ->
    earlier_take n (date_of c j) = Ret (map (fun i => day_or_none c (j - 1 - Z.of_nat i)) (seq 0 n)).
  Proof.
    intros H. rewrite (earlier_spec on_cal fpred pred_on fpred_on) by (exists j; auto). f_equal.
    apply map_ext. intros i. rewrite oiter_fpred by assumption. f_equal. lia.
  Qed.
  Theorem and_earlier_closed j n : in_i32 j ->
    and_earlier_take n (date_of c j) = Ret (map (fun i => day_or_none c (j - Z.of_nat i)) (seq 0 n)).
  Proof.
    intros H. rewrite (and_earlier_spec on_cal fpred pred_on fpred_on) by (exists j; auto). f_equal.
    apply map_ext. intros i. apply oiter_fpred. assumption.
  Qed.
End Open.

(* ------------------------------------------------------------------ C17: Days / Dates of every month of every calendar *)
Lemma F2_functional {A B} (F : A -> M (option B)) (g : A -> B) ks : forall L,
  Forall2 (fun k d => F k = Ret (Some d)) ks L -> (forall k, In k ks -> F k = Ret (Some (g k))) -> L = map g ks.
Proof.
  induction ks as [|k ks IH]; intros L H G; inversion H; subst; [reflexivity|].
  cbn [map]. f_equal.
  - match goal with X : F k = Ret (Some ?y) |- _ => rewrite (G k (or_introl eq_refl)) in X; inversion X; reflexivity end.
  - apply IH; [assumption|]. intros k' Hk'. apply G. right. exact Hk'.
Qed.

Section MonthIters.
  Context (c : cal) (V : ValidCal c) (y : Z) (Hy : in_i32 y) (m : Month).
  Let mz := Month_discr m.
  Let sp := shape_of c y mz.
  Let n := month_count c y mz.
  Hypothesis Ex : 0 < n.
  Let ms := mkMonthShape (cal_of c) y m sp.
  Let month_base : Z := NthDate.month_base c y m.

  Let Mr : 1 <= mz <= 12 := Month_discr_range m.
  Let W : WfShape sp := shape_of_wf c y mz V Mr Ex.
  Let Ln : sh_len sp = n := shape_of_len c y mz V Mr Ex.

  Let n_small : 1 <= n <= 31 := NthDate.n_small c V y m Ex.
  Let nth_day_closed k (K : in_u32 k) :
    MonthShape_nth_day ms k = Ret (if (1 <=? k) && (k <=? n) then Some (sh_nth sp k) else None) := NthDate.nth_day_closed c V y m Ex k K.
  Let nth_date_closed k (K : in_u32 k) :
    MonthShape_nth_date ms k = Ret (if (1 <=? k) && (k <=? n) then day_or_none c (month_base + k - 1) else None) := NthDate.nth_date_closed c V y Hy m Ex k K.

  (* Days: every interleaving of next / next_back / len on the month's day iterator behaves as the deque over the
     list of existing days in ascending order *)
  Definition days_list : list Z := map (sh_nth sp) (ri_seq 1 (Z.to_nat n)).
  Theorem days_closed ops : days_run ops ms = Ret (deque_run ops days_list) /\ deque_ok days_list (deque_run ops days_list).
  Proof.
    pose proof n_small as NS.
    assert (Hl : MonthShape_len ms = Ret n) by (unfold ms; rewrite len_ok by assumption; rewrite Ln; reflexivity).
    assert (Hd : forall k, 1 <= k <= n -> MonthShape_nth_day ms k = Ret (Some (sh_nth sp k))).
    { intros k K. rewrite nth_day_closed by (unfold in_u32; range). replace ((1 <=? k) && (k <=? n)) with true by lia. reflexivity. }
    destruct (days_spec ms n Hl ltac:(unfold u32_max; lia)) as (L & F & R).
    { intros k K. eexists. apply Hd. exact K. }
    assert (E : L = days_list).
    { apply (F2_functional (MonthShape_nth_day ms)); [exact F|]. intros k Hk. apply ri_seq_in in Hk. apply Hd. lia. }
    rewrite <- E. apply R.
  Qed.

  (* Dates: the ordinals whose day number is representable form the interval dates_lo..dates_hi (written n+1..n
     when empty), and the iterator behaves as the deque over exactly those dates, ascending *)
  Definition dates_lo : Z :=
    let lo := Z.max 1 (i32_min - month_base + 1) in let hi := Z.min n (i32_max - month_base + 1) in if lo <=? hi then lo else n + 1.
  Definition dates_hi : Z :=
    let lo := Z.max 1 (i32_min - month_base + 1) in let hi := Z.min n (i32_max - month_base + 1) in if lo <=? hi then hi else n.
  Definition dates_list : list Date :=
    map (fun k => date_of c (month_base + k - 1)) (ri_seq dates_lo (Z.to_nat (dates_hi - dates_lo + 1))).

  Lemma dates_interval k : 1 <= k <= n -> (dates_lo <= k <= dates_hi <-> in_i32 (month_base + k - 1)).
  Proof. clear nth_date_closed nth_day_closed n_small W Ln Mr ms. intros K. unfold dates_lo, dates_hi, in_i32. cbv zeta. destruct (Z.leb_spec (Z.max 1 (i32_min - month_base + 1)) (Z.min n (i32_max - month_base + 1))); unfold i32_min, i32_max in *; lia. Qed.

  Theorem dates_closed ops : dates_run ops ms = Ret (deque_run ops dates_list) /\ deque_ok dates_list (deque_run ops dates_list).
  Proof.
    pose proof n_small as NS.
    assert (Hl : MonthShape_len ms = Ret n) by (unfold ms; rewrite len_ok by assumption; rewrite Ln; reflexivity).
    assert (A1 : 1 <= dates_lo) by (unfold dates_lo; cbv zeta; destruct (_ <=? _); lia).
    assert (B1 : dates_hi <= n) by (unfold dates_hi; cbv zeta; destruct (_ <=? _); lia).
    assert (AB : dates_lo <= dates_hi \/ (dates_lo = n + 1 /\ dates_hi = n)).
    { unfold dates_lo, dates_hi. cbv zeta. destruct (Z.leb_spec (Z.max 1 (i32_min - month_base + 1)) (Z.min n (i32_max - month_base + 1))); [left|right]; lia. }
    assert (Hs : forall k, dates_lo <= k <= dates_hi -> MonthShape_nth_date ms k = Ret (Some (date_of c (month_base + k - 1)))).
    { intros k K. assert (KR : 1 <= k <= n) by lia. rewrite nth_date_closed by (unfold in_u32; range).
      replace ((1 <=? k) && (k <=? n)) with true by lia. unfold day_or_none.
      rewrite in_i32b_true by (apply dates_interval; assumption). reflexivity. }
    assert (Hn' : forall k, 1 <= k < dates_lo \/ dates_hi < k <= n -> MonthShape_nth_date ms k = Ret None).
    { intros k K. assert (KR : 1 <= k <= n) by lia. rewrite nth_date_closed by (unfold in_u32; range).
      replace ((1 <=? k) && (k <=? n)) with true by lia. unfold day_or_none.
      rewrite in_i32b_false; [reflexivity|]. intros X. apply dates_interval in X; [lia|assumption]. }
    destruct (dates_spec_sec ms n dates_lo dates_hi ltac:(unfold u32_max; lia) A1 B1 AB) as (L & F & R); try assumption.
    { intros k K. eexists. apply Hs. exact K. }
    assert (E : L = dates_list).
    { apply (F2_functional (MonthShape_nth_date ms)); [exact F|]. intros k Hk. apply ri_seq_in in Hk. apply Hs. lia. }
    rewrite <- E. apply R.
  Qed.

  (* and the constructor's two trimming loops end with exactly that range *)
  Theorem dates_new_closed : dates_new ms = Ret (mkDates ms (mkRange dates_lo dates_hi false)).
  Proof.
    pose proof n_small as NS.
    assert (Hl : MonthShape_len ms = Ret n) by (unfold ms; rewrite len_ok by assumption; rewrite Ln; reflexivity).
    assert (A1 : 1 <= dates_lo) by (unfold dates_lo; cbv zeta; destruct (_ <=? _); lia).
    assert (B1 : dates_hi <= n) by (unfold dates_hi; cbv zeta; destruct (_ <=? _); lia).
    assert (AB : dates_lo <= dates_hi \/ (dates_lo = n + 1 /\ dates_hi = n)).
    { unfold dates_lo, dates_hi. cbv zeta. destruct (Z.leb_spec (Z.max 1 (i32_min - month_base + 1)) (Z.min n (i32_max - month_base + 1))); [left|right]; lia. }
    apply (dates_new_spec ms n dates_lo dates_hi ltac:(unfold u32_max; lia) A1 B1 AB); [| |exact Hl].
    - intros k K. assert (KR : 1 <= k <= n) by lia. eexists. rewrite nth_date_closed by (unfold in_u32; range).
      replace ((1 <=? k) && (k <=? n)) with true by lia. unfold day_or_none.
      rewrite in_i32b_true by (apply dates_interval; assumption). reflexivity.
    - intros k K. assert (KR : 1 <= k <= n) by lia. rewrite nth_date_closed by (unfold in_u32; range).
      replace ((1 <=? k) && (k <=? n)) with true by lia. unfold day_or_none.
      rewrite in_i32b_false; [reflexivity|]. intros X. apply dates_interval in X; [lia|assumption].
  Qed.
End MonthIters.


Theorem days_all c y m s : ValidCal c -> in_i32 y -> Calendar_month_shape (cal_of c) y m = Ret (Some s) ->
  forall ops, days_run ops s = Ret (deque_run ops (days_list c y m)) /\ deque_ok (days_list c y m) (deque_run ops (days_list c y m)).
Proof. intros V Hy E ops. destruct (month_shape_some c y m s V Hy E) as [Ex ->]. apply days_closed; assumption. Qed.

Theorem dates_all c y m s : ValidCal c -> in_i32 y -> Calendar_month_shape (cal_of c) y m = Ret (Some s) ->
  forall ops, dates_run ops s = Ret (deque_run ops (dates_list c y m)) /\ deque_ok (dates_list c y m) (deque_run ops (dates_list c y m)).
Proof. intros V Hy E ops. destruct (month_shape_some c y m s V Hy E) as [Ex ->]. apply dates_closed; assumption. Qed.

Theorem dates_new_all c y m s : ValidCal c -> in_i32 y -> Calendar_month_shape (cal_of c) y m = Ret (Some s) ->
  dates_new s = Ret (mkDates s (mkRange (dates_lo c y m) (dates_hi c y m) false)).
Proof. intros V Hy E. destruct (month_shape_some c y m s V Hy E) as [Ex ->]. apply dates_new_closed; assumption. Qed.

(* what the two lists are, in the words of the property: the existing days of the month in ascending order; the
   dates of those days whose day number is a 32-bit number, in ascending order *)
Theorem days_list_meaning c y m : ValidCal c -> 0 < month_count c y (Month_discr m) ->
  (forall d, In d (days_list c y m) <-> InCal c y (Month_discr m) d) /\
  (forall i k, nth_error (days_list c y m) i = Some k -> forall i' k', nth_error (days_list c y m) i' = Some k' -> (i < i')%nat -> k < k') /\
  Z.of_nat (length (days_list c y m)) = month_count c y (Month_discr m).
Proof.
  intros V Ex. pose proof (Month_discr_range m) as Mr. set (mz := Month_discr m) in *.
  pose proof (shape_of_wf c y mz V Mr Ex) as W. pose proof (shape_of_len c y mz V Mr Ex) as Ln.
  pose proof (sh_len_pos _ W) as SL. unfold days_list. fold mz. split; [|split].
  - intros d. rewrite <- incal_iff by assumption. rewrite <- (shape_of_in c y mz V Mr Ex). rewrite in_map_iff. split.
    + intros (k & <- & Hk). apply ri_seq_in in Hk. apply sh_nth_in; [assumption|lia].
    + intros In. exists (sh_ord (shape_of c y mz) d). split; [apply sh_nth_ord; assumption|].
      apply ri_seq_in. pose proof (sh_ord_range _ d W In). lia.
  - intros i k Hi i' k' Hi' Lt.
    assert (Nth : forall i k, nth_error (map (sh_nth (shape_of c y mz)) (ri_seq 1 (Z.to_nat (month_count c y mz)))) i = Some k ->
                   k = sh_nth (shape_of c y mz) (1 + Z.of_nat i) /\ (i < Z.to_nat (month_count c y mz))%nat).
    { clear. intros i k. generalize 1 as lo. generalize (Z.to_nat (month_count c y mz)) as n. intros n. revert i.
      induction n as [|n IH]; intros i lo; destruct i; cbn [ri_seq map nth_error]; try discriminate.
      - intros X. inversion X. split; [f_equal; lia|lia].
      - intros X. destruct (IH i (lo + 1) X) as [E L]. split; [rewrite E; f_equal; lia|lia]. }
    destruct (Nth _ _ Hi) as [-> L1]. destruct (Nth _ _ Hi') as [-> L2]. apply sh_nth_mono; [assumption|lia|lia].
  - rewrite map_length, ri_seq_length. lia.
Qed.

Theorem dates_list_meaning c y m : ValidCal c -> 0 < month_count c y (Month_discr m) ->
  forall x, In x (dates_list c y m) <->
    exists k, 1 <= k <= month_count c y (Month_discr m) /\ in_i32 (month_base c y m + k - 1) /\ x = date_of c (month_base c y m + k - 1).
Proof.
  intros V Ex x. unfold dates_list. rewrite in_map_iff. split.
  - intros (k & <- & Hk). apply ri_seq_in in Hk. exists k.
    assert (KR : 1 <= k <= month_count c y (Month_discr m)).
    { unfold dates_lo, dates_hi in Hk. cbv zeta in Hk. destruct (Z.leb_spec (Z.max 1 (i32_min - month_base c y m + 1)) (Z.min (month_count c y (Month_discr m)) (i32_max - month_base c y m + 1))); lia. }
    split; [exact KR|]. split; [|reflexivity]. apply (dates_interval c y m Ex k KR). lia.
  - intros (k & KR & I & ->). exists k. split; [reflexivity|]. apply ri_seq_in. apply (dates_interval c y m Ex k KR) in I. lia.
Qed.
