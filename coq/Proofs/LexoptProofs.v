(* Proofs/LexoptProofs.v — facts about Hand/Lexopt.v (the lexopt 0.3.1 model):
   UTF-8 decoding of ASCII, well-formedness invariant of the parser state, no panic, progress measure,
   and the behaviour of `next` on the token shapes used by the julian command. *)
From JV Require Import Sem Hand.Lexopt.
Open Scope Z_scope.

(* ================================================================ UTF-8 *)
Lemma utf8_step_ascii b r : b < 128 -> utf8_step (b :: r) = U_Char b 1.
Proof.
  intros H. unfold utf8_step, utf8_width. replace (b <? 128) with true by lia. reflexivity.
Qed.

Lemma utf8_step_char bs cp n :
  utf8_step bs = U_Char cp n -> n = len_utf8 cp /\ (1 <= n <= List.length bs)%nat.
Proof.
  unfold utf8_step. destruct bs as [|b0 r0]; [discriminate|].
  unfold utf8_width.
  destruct (b0 <? 128) eqn:E1.
  { intros H. injection H as <- <-. unfold len_utf8. rewrite E1. cbn [List.length]. lia. }
  destruct (in_rng 194 223 b0) eqn:E2.
  { destruct r0 as [|b1 r1]; [discriminate|]. destruct (is_cont b1) eqn:C1; [|discriminate].
    intros H. injection H as <- <-. unfold len_utf8, in_rng, is_cont in *. cbn [List.length].
    replace ((b0 - 192) * 64 + (b1 - 128) <? 128) with false by lia.
    replace ((b0 - 192) * 64 + (b1 - 128) <? 2048) with true by lia. lia. }
  destruct (in_rng 224 239 b0) eqn:E3.
  { destruct r0 as [|b1 r1]; [discriminate|].
    match goal with |- context [if ?c then _ else _] => destruct c eqn:C1 end; [|discriminate].
    destruct r1 as [|b2 r2]; [discriminate|]. destruct (is_cont b2) eqn:C2; [|discriminate].
    intros H. injection H as <- <-. unfold len_utf8, in_rng, is_cont in *. cbn [List.length].
    set (cp := (b0 - 224) * 4096 + (b1 - 128) * 64 + (b2 - 128)).
    assert (2048 <= cp < 65536) by (unfold cp; lia).
    replace (cp <? 128) with false by lia. replace (cp <? 2048) with false by lia.
    replace (cp <? 65536) with true by lia. lia. }
  destruct (in_rng 240 244 b0) eqn:E4.
  { destruct r0 as [|b1 r1]; [discriminate|].
    match goal with |- context [if ?c then _ else _] => destruct c eqn:C1 end; [|discriminate].
    destruct r1 as [|b2 r2]; [discriminate|]. destruct (is_cont b2) eqn:C2; [|discriminate].
    destruct r2 as [|b3 r3]; [discriminate|]. destruct (is_cont b3) eqn:C3; [|discriminate].
    intros H. injection H as <- <-. unfold len_utf8, in_rng, is_cont in *. cbn [List.length].
    set (cp := (b0 - 240) * 262144 + (b1 - 128) * 4096 + (b2 - 128) * 64 + (b3 - 128)).
    assert (65536 <= cp) by (unfold cp; lia).
    replace (cp <? 128) with false by lia. replace (cp <? 2048) with false by lia.
    replace (cp <? 65536) with false by lia. lia. }
  discriminate.
Qed.

Lemma utf8_step_invalid bs n :
  utf8_step bs = U_Invalid (Some n) -> (1 <= n <= List.length bs)%nat.
Proof.
  unfold utf8_step. destruct bs as [|b0 r0]; [discriminate|].
  unfold utf8_width.
  destruct (b0 <? 128); [discriminate|].
  destruct (in_rng 194 223 b0).
  { destruct r0 as [|b1 r1]; [discriminate|]. destruct (is_cont b1); [discriminate|].
    intros H. injection H as <-. cbn [List.length]. lia. }
  destruct (in_rng 224 239 b0).
  { destruct r0 as [|b1 r1]; [discriminate|].
    match goal with |- context [if ?c then _ else _] => destruct c end.
    - destruct r1 as [|b2 r2]; [discriminate|]. destruct (is_cont b2); [discriminate|].
      intros H. injection H as <-. cbn [List.length]. lia.
    - intros H. injection H as <-. cbn [List.length]. lia. }
  destruct (in_rng 240 244 b0).
  { destruct r0 as [|b1 r1]; [discriminate|].
    match goal with |- context [if ?c then _ else _] => destruct c end.
    - destruct r1 as [|b2 r2]; [discriminate|]. destruct (is_cont b2).
      + destruct r2 as [|b3 r3]; [discriminate|]. destruct (is_cont b3); [discriminate|].
        intros H. injection H as <-. cbn [List.length]. lia.
      + intros H. injection H as <-. cbn [List.length]. lia.
    - intros H. injection H as <-. cbn [List.length]. lia. }
  intros H. injection H as <-. cbn [List.length]. lia.
Qed.

Lemma utf8_step_end bs : utf8_step bs = U_End -> bs = [].
Proof.
  destruct bs as [|b0 r0]; [reflexivity|]. unfold utf8_step, utf8_width.
  destruct (b0 <? 128); [discriminate|].
  destruct (in_rng 194 223 b0).
  { destruct r0 as [|b1 r1]; [discriminate|]. destruct (is_cont b1); discriminate. }
  destruct (in_rng 224 239 b0).
  { destruct r0 as [|b1 r1]; [discriminate|].
    match goal with |- context [if ?c then _ else _] => destruct c end; [|discriminate].
    destruct r1 as [|b2 r2]; [discriminate|]. destruct (is_cont b2); discriminate. }
  destruct (in_rng 240 244 b0).
  { destruct r0 as [|b1 r1]; [discriminate|].
    match goal with |- context [if ?c then _ else _] => destruct c end; [|discriminate].
    destruct r1 as [|b2 r2]; [discriminate|]. destruct (is_cont b2); [|discriminate].
    destruct r2 as [|b3 r3]; [discriminate|]. destruct (is_cont b3); discriminate. }
  discriminate.
Qed.

Lemma utf8_step_invalid_nonempty bs el : utf8_step bs = U_Invalid el -> bs <> [].
Proof. destruct bs; [discriminate | discriminate]. Qed.

Definition is_ascii (bs : list Z) : Prop := Forall (fun b => b < 128) bs.

Lemma from_utf8_fuel_ascii bs : forall fuel, (List.length bs <= fuel)%nat -> is_ascii bs -> from_utf8_fuel fuel bs = Some bs.
Proof.
  induction bs as [|b r IH]; intros fuel Hf Ha.
  - destruct fuel; reflexivity.
  - inversion Ha as [|? ? Hb Hr]; subst. cbn [List.length] in Hf.
    destruct fuel as [|f]; [lia|].
    cbn [from_utf8_fuel]. rewrite utf8_step_ascii by assumption. cbn [skipn].
    rewrite IH by (assumption || lia). reflexivity.
Qed.

Lemma from_utf8_ascii bs : is_ascii bs -> from_utf8 bs = Some bs.
Proof. intros. apply from_utf8_fuel_ascii; [lia | assumption]. Qed.

Lemma into_string_ascii bs : is_ascii bs -> into_string bs = Ok bs.
Proof. intros. unfold into_string. rewrite from_utf8_ascii by assumption. reflexivity. Qed.

Lemma first_codepoint_ascii b r : b < 128 -> first_codepoint (b :: r) = Ok (Some b).
Proof.
  intros. unfold first_codepoint. cbn [firstn]. rewrite utf8_step_ascii by assumption. reflexivity.
Qed.

Lemma firstn_length_le {A} n (l : list A) : (List.length (firstn n l) <= List.length l)%nat.
Proof. rewrite firstn_length. lia. Qed.

(* ================================================================ invariant, no panic, progress *)
(* what `next`, `value`, `optional_value` rely on (and keep) *)
Definition wf_parser (p : Parser) : Prop :=
  match p_state p with
  | St_PendingValue _ => p_last p <> LO_None
  | St_Shorts arg pos => (pos <= List.length arg)%nat /\ ((1 < pos)%nat -> p_last p <> LO_None)
  | _ => True
  end.

Definition src_measure (src : list (list Z)) : nat := fold_right (fun a n => S (List.length a + n)) O src.

Definition pmeasure (p : Parser) : nat :=
  (src_measure (p_source p) + match p_state p with St_Shorts arg pos => List.length arg - pos | _ => O end)%nat.

Lemma wf_parser_new argv : wf_parser (parser_new argv).
Proof. exact I. Qed.

Lemma slice_from_ok pos arg : (pos <= List.length arg)%nat -> slice_from pos arg = Ret (skipn pos arg).
Proof. intros. unfold slice_from. replace (pos <=? List.length arg)%nat with true by (symmetry; apply Nat.leb_le; lia). reflexivity. Qed.

(* ---- optional_value *)
Lemma optional_value_spec p :
  wf_parser p ->
  exists p' ov, optional_value p = Ret (p', ov) /\ wf_parser p' /\ p_source p' = p_source p /\ p_last p' = p_last p /\
                (pmeasure p' <= pmeasure p)%nat /\
                (p_state p' = St_None \/ (p_state p' = St_FinishedOpts /\ p_state p = St_FinishedOpts)).
Proof.
  intros W. unfold optional_value. destruct p as [src st last]. cbn [p_state p_source p_last] in *.
  unfold wf_parser in W; cbn [p_state p_last] in W.
  destruct st as [|v|arg pos|].
  - eexists _, _. split; [reflexivity|]. unfold wf_parser, pmeasure; cbn. repeat split; auto; lia.
  - eexists _, _. split; [reflexivity|]. unfold wf_parser, pmeasure; cbn. repeat split; auto; lia.
  - destruct W as [Wl Wn].
    destruct (List.length arg <=? pos)%nat eqn:E.
    + eexists _, _. split; [reflexivity|]. unfold wf_parser, pmeasure; cbn. repeat split; auto; lia.
    + apply Nat.leb_gt in E.
      set (pos' := match nth_error arg pos with Some b => if b =? EQ then S pos else pos | None => pos end).
      assert (pos' <= List.length arg)%nat.
      { unfold pos'. destruct (nth_error arg pos); [destruct (_ =? EQ)|]; lia. }
      rewrite slice_from_ok by assumption. cbn [bind].
      eexists _, _. split; [reflexivity|]. unfold wf_parser, pmeasure; cbn. repeat split; auto; lia.
  - eexists _, _. split; [reflexivity|]. unfold wf_parser, pmeasure; cbn. repeat split; auto; lia.
Qed.

(* ---- value *)
Lemma value_spec {PE} p :
  wf_parser p ->
  exists p' r, @value PE p = Ret (p', r) /\ wf_parser p' /\ (pmeasure p' <= pmeasure p)%nat /\
               (p_state p' = St_None \/ (p_state p' = St_FinishedOpts /\ p_state p = St_FinishedOpts)).
Proof.
  intros W. unfold value.
  destruct (optional_value_spec p W) as (p1 & ov & E & W1 & Hs & Hl & Hm & Hst).
  rewrite E. cbn [bind]. destruct ov as [v|].
  - eexists _, _. split; [reflexivity|]. auto.
  - destruct (p_source p1) as [|v rest] eqn:Es.
    + eexists _, _. split; [reflexivity|]. auto.
    + eexists _, _. split; [reflexivity|].
      assert (St : forall a, p_state p1 = a -> p_state (mkParser rest (p_state p1) (p_last p1)) = a) by (intros; assumption).
      split; [|split].
      * unfold wf_parser in *. cbn [p_state p_last]. destruct Hst as [-> | [-> _]]; exact I.
      * unfold pmeasure, src_measure in *. cbn [p_source p_state]. rewrite Es in Hm. cbn [fold_right] in Hm.
        destruct Hst as [H1 | [H1 _]]; rewrite H1 in *; lia.
      * cbn [p_state]. destruct Hst as [H1 | [H1 H2]]; [left | right]; auto.
Qed.

(* ---- next *)
Definition emits {PE} (r : Result (option Arg) (Error PE)) : Prop := exists a, r = Ok (Some a).

Lemma next_finished_spec {PE} src last :
  exists p' r, @next_finished PE src last = Ret (p', r) /\ wf_parser p' /\
               (pmeasure p' <= src_measure src)%nat /\ (emits r -> pmeasure p' < src_measure src)%nat.
Proof.
  unfold next_finished. destruct src as [|v rest].
  - eexists _, _. split; [reflexivity|]. unfold wf_parser, pmeasure, emits; cbn. repeat split; auto.
    intros (a & H); discriminate.
  - eexists _, _. split; [reflexivity|]. unfold wf_parser, pmeasure, emits; cbn. repeat split; auto; lia.
Qed.

Lemma next_shorts_spec {PE} src last arg pos (ft : unit -> NextResult PE) :
  (pos <= List.length arg)%nat -> ((1 < pos)%nat -> last <> LO_None) ->
  (exists p' r, ft tt = Ret (p', r) /\ wf_parser p' /\ (pmeasure p' <= src_measure src)%nat /\
                (emits r -> pmeasure p' < S (src_measure src))%nat) ->
  exists p' r, next_shorts src last arg pos ft = Ret (p', r) /\ wf_parser p' /\
               (pmeasure p' <= src_measure src + (List.length arg - pos))%nat /\
               (emits r -> pmeasure p' < S (src_measure src + (List.length arg - pos)))%nat /\
               ((pos < List.length arg)%nat -> emits r -> pmeasure p' < src_measure src + (List.length arg - pos))%nat.
Proof.
  intros Hp Hl Hft. unfold next_shorts. rewrite slice_from_ok by assumption. cbn [bind].
  assert (Hlen : List.length (skipn pos arg) = (List.length arg - pos)%nat) by apply skipn_length.
  unfold first_codepoint.
  destruct (utf8_step (firstn 4 (skipn pos arg))) as [|cp n|el] eqn:E.
  - (* end of the cluster *)
    destruct Hft as (p' & r & E' & W' & M1 & M2). rewrite E'. eexists _, _. split; [reflexivity|].
    split; [assumption|]. split; [lia|]. split; [intros; specialize (M2 H); lia|].
    intros Hlt. exfalso. apply utf8_step_end in E.
    destruct (skipn pos arg) as [|b r0] eqn:Es; [cbn [List.length] in Hlen; lia|]. discriminate.
  - apply utf8_step_char in E. destruct E as [-> Hn].
    pose proof (firstn_length_le 4 (skipn pos arg)) as Hf.
    destruct ((cp =? EQ) && (1 <? pos)%nat) eqn:Eeq.
    + apply andb_prop in Eeq. destruct Eeq as [_ Epos]. apply Nat.ltb_lt in Epos.
      destruct (format_last_option last) as [opt|] eqn:Efl.
      2:{ exfalso. apply (Hl Epos). destruct last; [reflexivity | discriminate | discriminate]. }
      destruct (optional_value_spec (mkParser src (St_Shorts arg pos) last)) as (p1 & ov & E1 & W1 & Hs1 & Hl1 & Hm1 & Hst1).
      { unfold wf_parser. cbn [p_state p_last]. auto. }
      rewrite E1. cbn [bind].
      assert (exists v, ov = Some v) as (v & ->).
      { unfold optional_value in E1. cbn [p_state p_source p_last] in E1.
        destruct (List.length arg <=? pos)%nat eqn:El.
        - apply Nat.leb_le in El. lia.
        - destruct (slice_from _ arg); cbn [bind] in E1; [|discriminate]. injection E1 as _ <-. eexists; reflexivity. }
      eexists _, _. split; [reflexivity|]. split; [assumption|].
      unfold pmeasure in Hm1. cbn [p_source p_state] in Hm1.
      split; [unfold pmeasure in *; lia|]. split; intros; [unfold emits in *; destruct H as (a & H); discriminate|].
      unfold emits in *. destruct H0 as (a & H0); discriminate.
    + eexists _, _. split; [reflexivity|]. unfold wf_parser, pmeasure, emits. cbn [p_state p_last p_source].
      split; [split; [lia | discriminate]|]. split; [lia|]. split; intros; lia.
  - assert (Hne : firstn 4 (skipn pos arg) <> []) by (eapply utf8_step_invalid_nonempty; eassumption).
    assert (Hlt : (pos < List.length arg)%nat).
    { destruct (skipn pos arg) eqn:Es; [exfalso; apply Hne; reflexivity|]. cbn [List.length] in Hlen. lia. }
    pose proof (firstn_length_le 4 (skipn pos arg)) as Hf.
    eexists _, _. split; [reflexivity|]. unfold wf_parser, pmeasure, emits. cbn [p_state p_last p_source].
    destruct el as [n|].
    + apply utf8_step_invalid in E. split; [split; [lia | discriminate]|]. split; [lia|]. split; intros; lia.
    + split; [split; [lia | discriminate]|]. split; [lia|]. split; intros; lia.
Qed.

Lemma next_fresh_spec {PE} src : forall last,
  exists p' r, @next_fresh PE src last = Ret (p', r) /\ wf_parser p' /\
               (pmeasure p' <= src_measure src)%nat /\ (emits r -> pmeasure p' < src_measure src)%nat.
Proof.
  induction src as [|arg rest IH]; intros last.
  - eexists _, _. split; [reflexivity|]. unfold wf_parser, pmeasure, emits; cbn. repeat split; auto.
    intros (a & H); discriminate.
  - cbn [next_fresh]. cbn [src_measure fold_right]. fold (src_measure rest).
    destruct (bytes_eqb arg [DASH; DASH]).
    { destruct (@next_finished_spec PE rest last) as (p' & r & E & W & M1 & M2).
      eexists _, _. split; [exact E|]. split; [assumption|]. split; [lia|]. intros H; specialize (M2 H); lia. }
    destruct (starts_with_dashdash arg).
    { destruct (position_eq arg) as [ind|].
      - eexists _, _. split; [reflexivity|]. unfold wf_parser, pmeasure, emits; cbn [p_state p_last p_source].
        split; [discriminate|]. split; intros; lia.
      - eexists _, _. split; [reflexivity|]. unfold wf_parser, pmeasure, emits; cbn [p_state p_last p_source].
        split; [exact I|]. split; intros; lia. }
    destruct ((1 <? List.length arg)%nat && match arg with b :: _ => b =? DASH | [] => false end) eqn:Esh.
    { apply andb_prop in Esh. destruct Esh as [Hlen _]. apply Nat.ltb_lt in Hlen.
      destruct (@next_shorts_spec PE rest last arg 1 (fun _ => next_fresh rest last)) as (p' & r & E & W & M1 & M2 & M3).
      - lia.
      - intros; lia.
      - destruct (IH last) as (p' & r & E & W & M1 & M2). eexists _, _. split; [exact E|]. split; [assumption|].
        split; [assumption|]. intros H; specialize (M2 H); lia.
      - eexists _, _. split; [exact E|]. split; [assumption|]. split; [lia|]. intros H. specialize (M3 Hlen H). lia. }
    eexists _, _. split; [reflexivity|]. unfold wf_parser, pmeasure, emits; cbn [p_state p_last p_source].
    split; [exact I|]. split; intros; lia.
Qed.

(* `next` never panics from a well-formed state, keeps the invariant, and consumes input when it emits *)
Lemma next_spec {PE} p :
  wf_parser p ->
  exists p' r, @next PE p = Ret (p', r) /\ wf_parser p' /\ (pmeasure p' <= pmeasure p)%nat /\
               (emits r -> pmeasure p' < pmeasure p)%nat.
Proof.
  intros W. unfold next. destruct p as [src st last]. unfold wf_parser in W. cbn [p_state p_last p_source] in *.
  unfold pmeasure at 2 4. cbn [p_state p_source].
  destruct st as [|v|arg pos|].
  - destruct (@next_fresh_spec PE src last) as (p' & r & E & W' & M1 & M2).
    eexists _, _. split; [exact E|]. split; [assumption|]. split; [lia|]. intros H; specialize (M2 H); lia.
  - destruct (format_last_option last) eqn:Efl.
    + eexists _, _. split; [reflexivity|]. unfold wf_parser, pmeasure, emits; cbn [p_state p_last p_source].
      split; [exact I|]. split; [lia|]. intros (a & H); discriminate.
    + exfalso. apply W. destruct last; [reflexivity | discriminate | discriminate].
  - destruct W as [Wl Wn].
    destruct (@next_shorts_spec PE src last arg pos (fun _ => next_fresh src last)) as (p' & r & E & W' & M1 & M2 & M3); auto.
    { destruct (@next_fresh_spec PE src last) as (p' & r & E & W' & M1 & M2). eexists _, _. split; [exact E|].
      split; [assumption|]. split; [assumption|]. intros H; specialize (M2 H); lia. }
    eexists _, _. split; [exact E|]. split; [assumption|]. split; [lia|].
    intros H. destruct (Nat.eq_dec pos (List.length arg)) as [->|Hne].
    + (* at the end of the cluster: the fall-through consumes an argument *)
      clear M3. revert E. unfold next_shorts. rewrite slice_from_ok by lia. cbn [bind].
      rewrite skipn_all. cbn [first_codepoint firstn utf8_step].
      intros E. destruct (@next_fresh_spec PE src last) as (p2 & r2 & E2 & W2 & M12 & M22).
      rewrite E2 in E. injection E as <- <-. specialize (M22 H). lia.
    + assert (pos < List.length arg)%nat by lia. specialize (M3 H0 H). lia.
  - destruct (@next_finished_spec PE src last) as (p' & r & E & W' & M1 & M2).
    eexists _, _. split; [exact E|]. split; [assumption|]. split; [lia|]. intros H; specialize (M2 H); lia.
Qed.

(* ================================================================ `next` on the token shapes of the command *)
(* a token that `next` hands out as a positional value when options are still being read:
   empty, one byte (including "-"), or not starting with '-' *)
Definition plain_value (arg : list Z) : Prop :=
  match arg with b :: _ :: _ => b <> DASH | _ => True end.

Lemma next_fresh_value {PE} arg rest last :
  plain_value arg ->
  @next_fresh PE (arg :: rest) last = Ret (mkParser rest St_None last, Ok (Some (A_Value arg))).
Proof.
  intros H. cbn [next_fresh]. unfold plain_value, DASH in H.
  destruct arg as [|b [|c r]].
  - reflexivity.
  - cbn. rewrite andb_false_r. reflexivity.
  - cbn [bytes_eqb starts_with_dashdash List.length]. unfold DASH.
    replace (b =? 45) with false by lia. cbn [andb]. rewrite andb_false_r. reflexivity.
Qed.

Lemma nth_error_skipn {A} (l : list A) n b : nth_error l n = Some b -> skipn n l = b :: skipn (S n) l.
Proof.
  revert l. induction n as [|n IH]; intros [|a l] H; try discriminate.
  - injection H as ->. reflexivity.
  - cbn [nth_error] in H. cbn [skipn]. rewrite (IH l H). reflexivity.
Qed.

Lemma len_utf8_ascii b : b < 128 -> len_utf8 b = 1%nat.
Proof. intros. unfold len_utf8. replace (b <? 128) with true by lia. reflexivity. Qed.

(* inside a cluster, at an ASCII byte that is not an unexpected '=' *)
Lemma next_shorts_ascii {PE} src last arg pos b :
  nth_error arg pos = Some b -> b < 128 -> (b <> EQ \/ (pos <= 1)%nat) ->
  @next PE (mkParser src (St_Shorts arg pos) last) =
  Ret (mkParser src (St_Shorts arg (S pos)) (LO_Short b), Ok (Some (A_Short b))).
Proof.
  intros Hn Hb Heq. unfold next. cbn [p_state p_source p_last]. unfold next_shorts.
  assert (pos < List.length arg)%nat by (apply nth_error_Some; congruence).
  rewrite slice_from_ok by lia. cbn [bind]. rewrite (nth_error_skipn _ _ _ Hn).
  rewrite first_codepoint_ascii by assumption.
  replace ((b =? EQ) && (1 <? pos)%nat) with false.
  2:{ symmetry. apply andb_false_iff. destruct Heq as [Hne | Hp]; [left; unfold EQ in *; lia | right; apply Nat.ltb_ge; lia]. }
  rewrite len_utf8_ascii by assumption. replace (pos + 1)%nat with (S pos) by lia. reflexivity.
Qed.

(* at the end of a cluster `next` continues with the next argument *)
Lemma next_shorts_end {PE} src last arg :
  @next PE (mkParser src (St_Shorts arg (List.length arg)) last) = next_fresh src last.
Proof.
  unfold next. cbn [p_state p_source p_last]. unfold next_shorts. rewrite slice_from_ok by lia. cbn [bind].
  rewrite skipn_all. reflexivity.
Qed.

(* "-" followed by an ASCII byte other than '-' : the first short option of a cluster *)
Lemma next_fresh_short {PE} b tl rest last :
  b < 128 -> b <> DASH ->
  @next_fresh PE ((DASH :: b :: tl) :: rest) last =
  Ret (mkParser rest (St_Shorts (DASH :: b :: tl) 2) (LO_Short b), Ok (Some (A_Short b))).
Proof.
  intros Hb Hd. cbn [next_fresh bytes_eqb starts_with_dashdash List.length]. unfold DASH in *.
  change (45 =? 45) with true. replace (b =? 45) with false by lia. cbn [andb].
  change (1 <? S (S (List.length tl)))%nat with true. cbn [andb].
  pose proof (@next_shorts_ascii PE rest last (45 :: b :: tl) 1 b eq_refl Hb (or_intror (le_n 1))) as H.
  unfold next in H. cbn [p_state p_source p_last] in H. unfold next_shorts in *.
  revert H. rewrite slice_from_ok by (cbn [List.length]; lia). cbn [bind skipn].
  rewrite first_codepoint_ascii by assumption.
  replace ((b =? EQ) && (1 <? 1)%nat) with false by (rewrite andb_false_r; reflexivity).
  intros H. exact H.
Qed.

Definition no_eq (bs : list Z) : Prop := Forall (fun b => b <> EQ) bs.

Lemma position_eq_none bs : no_eq bs -> position_eq bs = None.
Proof.
  induction 1 as [|b r Hb Hr IH]; [reflexivity|]. cbn [position_eq]. unfold EQ in *.
  replace (b =? 61) with false by lia. rewrite IH. reflexivity.
Qed.

(* "--name" with an ASCII name free of '=' *)
Lemma next_fresh_long {PE} name rest last :
  name <> [] -> is_ascii name -> no_eq name ->
  @next_fresh PE ((DASH :: DASH :: name) :: rest) last =
  Ret (mkParser rest St_None (LO_Long (DASH :: DASH :: name)), Ok (Some (A_Long name))).
Proof.
  intros Hne Ha He. cbn [next_fresh].
  assert (bytes_eqb (DASH :: DASH :: name) [DASH; DASH] = false) as ->.
  { destruct name; [congruence|]. reflexivity. }
  cbn [starts_with_dashdash]. change (DASH =? DASH) with true. cbn [andb].
  rewrite position_eq_none.
  2:{ constructor; [unfold DASH, EQ; lia|]. constructor; [unfold DASH, EQ; lia|]. assumption. }
  rewrite from_utf8_ascii.
  2:{ constructor; [unfold DASH; lia|]. constructor; [unfold DASH; lia|]. assumption. }
  reflexivity.
Qed.

(* ---- optional_value / value in the states reached right after an option *)
Lemma optional_value_none src last : optional_value (mkParser src St_None last) = Ret (mkParser src St_None last, None).
Proof. reflexivity. Qed.

Lemma optional_value_shorts_end src last arg pos :
  (List.length arg <= pos)%nat ->
  optional_value (mkParser src (St_Shorts arg pos) last) = Ret (mkParser src St_None last, None).
Proof.
  intros. unfold optional_value. cbn [p_state p_source p_last].
  replace (List.length arg <=? pos)%nat with true by (symmetry; apply Nat.leb_le; assumption). reflexivity.
Qed.

Lemma optional_value_shorts_tail src last arg pos b :
  nth_error arg pos = Some b ->
  optional_value (mkParser src (St_Shorts arg pos) last) =
  Ret (mkParser src St_None last, Some (if b =? EQ then skipn (S pos) arg else skipn pos arg)).
Proof.
  intros Hn. unfold optional_value. cbn [p_state p_source p_last].
  assert (pos < List.length arg)%nat by (apply nth_error_Some; congruence).
  replace (List.length arg <=? pos)%nat with false by (symmetry; apply Nat.leb_gt; assumption).
  rewrite Hn. destruct (b =? EQ).
  - rewrite slice_from_ok by lia. reflexivity.
  - rewrite slice_from_ok by lia. reflexivity.
Qed.

Lemma value_next_arg {PE} src last v :
  @value PE (mkParser (v :: src) St_None last) = Ret (mkParser src St_None last, Ok v).
Proof. reflexivity. Qed.

Lemma value_missing {PE} last :
  @value PE (mkParser [] St_None last) = Ret (mkParser [] St_None last, Err (E_MissingValue (format_last_option last))).
Proof. reflexivity. Qed.

Lemma value_shorts_end {PE} src last arg pos v :
  (List.length arg <= pos)%nat ->
  @value PE (mkParser (v :: src) (St_Shorts arg pos) last) = Ret (mkParser src St_None last, Ok v).
Proof. intros. unfold value. rewrite optional_value_shorts_end by assumption. reflexivity. Qed.
