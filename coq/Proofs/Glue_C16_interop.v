(* Glue_C16_interop.v — proofs of the statements of Properties/C16_interop.v that need a few steps beyond a library lemma
   (rephrasing only: no induction, no case analysis of the model).  The scripts were moved out of the property file so
   that it contains nothing but statements closed by [exact]. *)
From JV Require Import Sem Gen Spec SpecX.
From JV.Hand Require Import Interop.
From JV.Proofs Require Import SpecFacts Cal Core Canon InteropProofs.
Open Scope Z_scope.

Lemma C16_day_count_lemma : forall y m d, valid_md (gleap y) m d ->
  jdn_g y m d - 1721425 = 365 * (y - 1) + (y - 1) / 4 - (y - 1) / 100 + (y - 1) / 400 + cum (gleap y) m + d.
Proof. intros y m d _. unfold jdn_g, G0. lia. Qed.

Lemma C16_ranges_fit_lemma : RangeOk chrono_ymin chrono_ymax /\ RangeOk time_ymin time_ymax.
Proof. split; [exact chrono_range|exact time_range]. Qed.

