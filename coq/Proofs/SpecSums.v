(* SpecSums.v — month sums: the number of dates of a year before month m, closed forms by
   telescoping, and "the sum of the month lengths is the year length". *)
From Coq Require Import ZArith Lia ZifyBool Bool List.
From JV Require Import Spec.
From JV.Proofs Require Import SpecFacts GapFacts.
Import ListNotations.
Open Scope Z_scope.
Ltac Zify.zify_post_hook ::= Z.to_euclidean_division_equations.

(* number of dates of year y that fall in months 1 .. k-1 *)
(* msum c y m = dates in months before m (m = 1..13) *)
Lemma cum13_succ l m : 1 <= m <= 12 -> cum13 l (m + 1) = cum13 l m + mlen l m.
Proof.
  intros H. unfold cum13. destruct (Z.eqb_spec m 12) as [->|N].
  - change (12 + 1 =? 13) with true. change (12 =? 13) with false. cbv iota. pose proof (cum_12 l). lia.
  - replace (m + 1 =? 13) with false by lia. replace (m =? 13) with false by lia. apply cum_succ. lia.
Qed.
Lemma cum13_1 l : cum13 l 1 = 0. Proof. reflexivity. Qed.
Lemma cum13_13 l : cum13 l 13 = ylen l. Proof. reflexivity. Qed.
Lemma cum13_cum l m : 1 <= m <= 12 -> cum13 l m = cum l m.
Proof. intros. unfold cum13. replace (m =? 13) with false by lia. reflexivity. Qed.

(* closed forms of the partial sums of old-style and new-style days *)

Lemma old_step c y m : 1 <= m <= 12 -> osum c y (m + 1) = osum c y m + old_mdays c y m.
Proof.
  intros H. pose proof (cum13_succ (jleap y) m H) as S. pose proof (mlen_bounds (jleap y) m).
  destruct c as [| |r]; cbn [osum old_mdays]; try lia.
  unfold clamp, jdn_j. rewrite S. rewrite (cum13_cum _ _ H). pose proof (cum_bounds (jleap y) m H) as [B _]. clear S.
  revert H0 B. generalize (cum (jleap y) m) (mlen (jleap y) m) (J0 y). clear H. intros. lia.
Qed.
Lemma new_step c y m : 1 <= m <= 12 -> nsum c y (m + 1) = nsum c y m + new_mdays c y m.
Proof.
  intros H. pose proof (cum13_succ (gleap y) m H) as S. pose proof (mlen_bounds (gleap y) m).
  destruct c as [| |r]; cbn [nsum new_mdays new_mfirst]; try lia.
  unfold clamp, jdn_g. rewrite S. rewrite (cum13_cum _ _ H). pose proof (cum_bounds (gleap y) m H) as [B _]. clear S.
  revert H0 B. generalize (cum (gleap y) m) (mlen (gleap y) m) (G0 y). clear H. intros. lia.
Qed.

Lemma msum_n_closed c y k : (1 <= k <= 13)%nat ->
  msum_n c y k - month_count c y 0 = osum c y (Z.of_nat k) + nsum c y (Z.of_nat k).
Proof.
  intros H. induction k as [|k IH]; [lia|].
  destruct (Nat.eq_dec k 0) as [->|N].
  - cbn [msum_n]. change (Z.of_nat 1) with 1. change (Z.of_nat 0) with 0. destruct c; cbn [osum nsum]; rewrite ?cum13_1; unfold clamp; lia.
  - cbn [msum_n]. specialize (IH ltac:(lia)).
    replace (Z.of_nat (S k)) with (Z.of_nat k + 1) by lia.
    rewrite old_step, new_step by lia. unfold month_count in *. lia.
Qed.
Lemma msum_closed c y m : 1 <= m <= 13 -> msum c y m = osum c y m + nsum c y m.
Proof.
  intros H. unfold msum. rewrite msum_n_closed by lia. rewrite Z2Nat.id by lia. reflexivity.
Qed.
Lemma msum_1 c y : msum c y 1 = 0.
Proof. rewrite msum_closed by lia. destruct c; cbn [osum nsum]; rewrite ?cum13_1; unfold clamp; lia. Qed.
Lemma msum_succ c y m : 1 <= m <= 12 -> msum c y (m + 1) = msum c y m + month_count c y m.
Proof. intros H. rewrite !msum_closed by lia. rewrite old_step, new_step by lia. unfold month_count. lia. Qed.

(* the sum of the month lengths is the number of dates in the year *)
Theorem msum_total c y : msum c y 13 = year_count c y.
Proof.
  rewrite msum_closed by lia. unfold year_count. pose proof (J0_step y). pose proof (G0_step y).
  pose proof (ylen_bounds (jleap y)). pose proof (ylen_bounds (gleap y)).
  destruct c as [| |r]; cbn [osum nsum old_days new_days]; rewrite ?cum13_13; unfold clamp; lia.
Qed.
Lemma msum_mono c y m : 1 <= m <= 12 -> msum c y m <= msum c y (m + 1).
Proof.
  intros H. rewrite msum_succ by lia. unfold month_count. pose proof (mlen_bounds (jleap y) m). pose proof (mlen_bounds (gleap y) m).
  destruct c; cbn [old_mdays new_mdays new_mfirst]; lia.
Qed.
Lemma month_count_range c y m : 0 <= month_count c y m.
Proof.
  unfold month_count. pose proof (mlen_bounds (jleap y) m). pose proof (mlen_bounds (gleap y) m).
  destruct c; cbn [old_mdays new_mdays new_mfirst]; lia.
Qed.
