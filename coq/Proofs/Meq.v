(* Meq.v — a tactic that proves two terms of the panic monad equal when they differ only by a behaviour-preserving
   rearrangement: total pure helper calls hoisted or inlined, nested conditionals merged or split, operands of a
   symmetric comparison swapped, join points introduced or removed.  It is used for the "unfold lemmas" that relate a
   generated function to the structural definition the proofs work with, so that such a rearrangement of the source
   does not break them.  It proves equalities only; it cannot make a wrong program look right. *)
From JV Require Import Sem.
Open Scope Z_scope.

Lemma bind_assoc {A B C} (m : M A) (f : A -> M B) (g : B -> M C) : bind (bind m f) g = bind m (fun x => bind (f x) g).
Proof. destruct m; reflexivity. Qed.
Lemma bind_ret_r {A} (m : M A) : bind m (fun x => Ret x) = m.
Proof. destruct m; reflexivity. Qed.

Lemma bind_ext {A B} (m : M A) (f g : A -> M B) : (forall x, f x = g x) -> bind m f = bind m g.
Proof. intros H. destruct m; cbn [bind]; [apply H|reflexivity]. Qed.

(* one step: reduce binds of values, align identical monadic calls, split on the test at the HEAD of either side
   (inner tests are reached after the outer ones are decided: splitting them first would multiply the cases),
   pruning the combinations the hypotheses contradict *)
Ltac meq_split c := destruct c eqn:?; try solve [exfalso; lia].
Ltac meq_step :=
  first
  [ reflexivity
  | progress cbn [bind]
  | progress cbv zeta
  | progress autounfold with gen_new
  | rewrite bind_assoc
  | rewrite bind_ret_r
  | match goal with
    | |- bind ?m _ = bind ?m _ => apply bind_ext; intro
    end
  | match goal with
    | |- (if ?c then _ else _) = _ => meq_split c
    | |- _ = (if ?c then _ else _) => meq_split c
    | |- bind (if ?c then _ else _) _ = _ => meq_split c
    | |- _ = bind (if ?c then _ else _) _ => meq_split c
    | |- (match ?c with _ => _ end) = _ => meq_split c
    | |- _ = (match ?c with _ => _ end) => meq_split c
    | |- bind (match ?c with _ => _ end) _ = _ => meq_split c
    | |- _ = bind (match ?c with _ => _ end) _ => meq_split c
    end
  | match goal with
    | |- context[match ?x with _ => _ end] => is_var x; destruct x
    end
  | match goal with
    | |- context[if ?c then _ else _] =>
      lazymatch c with
      | context[if _ then _ else _] => fail
      | context[match _ with _ => _ end] => fail
      | _ => meq_split c
      end
    end
  | match goal with
    | |- context[match ?c with _ => _ end] =>
      lazymatch c with
      | context[if _ then _ else _] => fail
      | context[match _ with _ => _ end] => fail
      | _ => destruct c eqn:?
      end
    end ].
Ltac meq_leaf := first [ reflexivity | congruence | (exfalso; lia) | (repeat f_equal; lia) ].
Ltac meq := repeat meq_step; try meq_leaf.

(* decide every integer comparison of the goal that the context decides *)
Ltac cmp_simpl :=
  repeat match goal with
  | |- context[?a <? ?b] => first [replace (a <? b) with true by lia | replace (a <? b) with false by lia]
  | |- context[?a =? ?b] => first [replace (a =? b) with true by lia | replace (a =? b) with false by lia]
  | |- context[?a <=? ?b] => first [replace (a <=? b) with true by lia | replace (a <=? b) with false by lia]
  end.

(* equality of two results: strip the constructors they share (not the arithmetic), then arithmetic *)
Ltac ctor_eq :=
  repeat match goal with
  | |- Ret _ = Ret _ => f_equal
  | |- Ok _ = Ok _ => f_equal
  | |- Err _ = Err _ => f_equal
  | |- Some _ = Some _ => f_equal
  | |- (_, _) = (_, _) => f_equal
  end.
Ltac leaf_eq := ctor_eq; first [ reflexivity | lia | range ].
