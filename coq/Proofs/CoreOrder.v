(* CoreOrder.v — order facts for the values a user can hold: labels and (year, ordinal) increase with the
   day number; calendars that compare equal are identical; Eq/Ord/Hash of canonical dates cohere. *)
From JV Require Import Sem Gen Spec SpecX.
From JV.Hand Require Import Order.
From JV.Proofs Require Import SpecFacts GapFacts Cal Cmp AtJdn SpecSets SpecStep SuccPred Core OrderProofs.
Open Scope Z_scope.
Ltac Zify.zify_post_hook ::= Z.to_euclidean_division_equations.

Theorem code_labels_monotone c j j' : ValidCal c -> in_i32 j -> in_i32 j' -> j < j' ->
  exists d d', Calendar_at_jdn (cal_of c) j = Ret d /\ Calendar_at_jdn (cal_of c) j' = Ret d' /\
    lex_lt (Date_f_year d, Month_discr (Date_f_month d), Date_f_day d) (Date_f_year d', Month_discr (Date_f_month d'), Date_f_day d').
Proof.
  intros V H H' L. destruct (at_jdn_label c j V H) as (d & E & Lb & _). destruct (at_jdn_label c j' V H') as (d' & E' & Lb' & _).
  exists d, d'. split; [exact E|]. split; [exact E'|]. rewrite Lb, Lb'. apply lbl_mono; assumption.
Qed.

Theorem year_ordinal_monotone c j j' : ValidCal c -> j < j' ->
  l_year (lbl c j) < l_year (lbl c j') \/ (l_year (lbl c j) = l_year (lbl c j') /\ ordinal_of c j < ordinal_of c j').
Proof.
  intros V L. pose proof (lbl_mono c j j' V L) as M. unfold lex_lt in M.
  destruct (Z.eq_dec (l_year (lbl c j)) (l_year (lbl c j'))) as [E|N]; [right|left; lia].
  split; [exact E|]. destruct (ordinal_closed c j V) as [_ O]. destruct (ordinal_closed c j' V) as [_ O']. rewrite E in O. lia.
Qed.

Theorem cal_eq_identity c c' : cal_eq (cal_of c) (cal_of c') = true -> cal_of c = cal_of c'.
Proof.
  unfold cal_eq, inner_cal_eq, cmp_is_eq, inner_cal_cmp.
  destruct c as [| |r], c' as [| |r']; cbn [cal_of Calendar_JULIAN Calendar_GREGORIAN Calendar_f_0]; intros H; try discriminate; try reflexivity.
  destruct (Z.compare_spec r r'); try discriminate. subst. reflexivity.
Qed.

Theorem date_coherent_canonical c c' j j' : ValidCal c -> ValidCal c' -> in_i32 j -> in_i32 j' ->
  (date_eq (date_of c j) (date_of c' j') = true <-> date_cmp (date_of c j) (date_of c' j') = Eq) /\
  (date_cmp (date_of c j) (date_of c' j') = Eq -> date_hash (date_of c j) = date_hash (date_of c' j')) /\
  (date_cmp (date_of c j) (date_of c' j') = Eq <-> date_of c j = date_of c' j') /\
  (date_cmp (date_of c j) (date_of c' j') = Eq <-> (j = j' /\ cal_of c = cal_of c')).
Proof.
  intros V V' H H'.
  destruct (date_of_fields c j) as (Fc & _ & _ & Fj & _). destruct (date_of_fields c' j') as (Fc' & _ & _ & Fj' & _).
  assert (A : Calendar_at_jdn (Date_f_calendar (date_of c j)) (Date_f_jdn (date_of c j)) = Ret (date_of c j)) by (rewrite Fc, Fj; apply at_jdn_ok; assumption).
  assert (A' : Calendar_at_jdn (Date_f_calendar (date_of c' j')) (Date_f_jdn (date_of c' j')) = Ret (date_of c' j')) by (rewrite Fc', Fj'; apply at_jdn_ok; assumption).
  assert (G : cal_eq (Date_f_calendar (date_of c j)) (Date_f_calendar (date_of c' j')) = true ->
              cal_gap (Date_f_calendar (date_of c j)) = cal_gap (Date_f_calendar (date_of c' j'))).
  { rewrite Fc, Fc'. intros E. rewrite (cal_eq_identity c c' E). reflexivity. }
  assert (K : date_cmp (date_of c j) (date_of c' j') = Eq <-> (j = j' /\ cal_of c = cal_of c')).
  { rewrite date_cmp_eq_iff. rewrite Fj, Fj', Fc, Fc'. split; intros [E1 E2]; split; try assumption.
    - apply cal_eq_identity; exact E2.
    - rewrite E2. apply cal_eq_iff_cmp. apply cal_cmp_eq_key. reflexivity. }
  split; [exact (date_coherent _ _ A A' G)|]. split; [exact (date_cmp_hash _ _ A A' G)|]. split; [|exact K].
  rewrite K. split.
  - intros [-> E]. apply cal_of_inj in E. subst. reflexivity.
  - intros E. split.
    + apply (f_equal Date_f_jdn) in E. rewrite Fj, Fj' in E. exact E.
    + apply (f_equal Date_f_calendar) in E. rewrite Fc, Fc' in E. exact E.
Qed.
