(* SpecStep.v — spec-level: how year and day-of-year change from one day to the next. *)
From JV Require Import Sem Gen Spec SpecX.
From JV.Proofs Require Import SpecFacts GapFacts Cal Cmp MonthGeom SpecSums SpecSets.
Open Scope Z_scope.
Ltac Zify.zify_post_hook ::= Z.to_euclidean_division_equations.

Definition ylo (c : cal) (y : Z) : Z := if 0 <? old_days c y then J0 y else new_start c y.

Lemma ordinal_closed c j : ValidCal c ->
  let y := l_year (lbl c j) in
  ylo c y <= j < ylo c y + year_count c y /\ ordinal_of c j = j - ylo c y + 1.
Proof.
  intros V y. pose proof (year_interval c y V) as E. cbv zeta in E. fold (ylo c y) in E.
  assert (Self : InYear c y j) by reflexivity. pose proof (proj1 (E j) Self) as SB. split; [exact SB|].
  destruct (ordinal_is c j V) as (j0 & Le & B & O). fold y in B.
  assert (j0 = ylo c y).
  { destruct (Z.lt_trichotomy j0 (ylo c y)) as [L|[Eq|G]]; [|exact Eq|].
    - pose proof (proj2 (B j0) ltac:(lia)) as [_ X]. apply E in X. lia.
    - pose proof (proj1 (B (ylo c y))) as X. rewrite E in X. lia. }
  lia.
Qed.

Lemma same_year_next c j : ValidCal c -> ordinal_of c j < year_count c (l_year (lbl c j)) ->
  l_year (lbl c (j + 1)) = l_year (lbl c j) /\ ordinal_of c (j + 1) = ordinal_of c j + 1.
Proof.
  intros V H. destruct (ordinal_closed c j V) as [B O]. set (y := l_year (lbl c j)) in *.
  pose proof (year_interval c y V) as E. cbv zeta in E. fold (ylo c y) in E.
  assert (In : InYear c y (j + 1)) by (apply E; lia). unfold InYear in In.
  split; [exact In|]. destruct (ordinal_closed c (j + 1) V) as [B' O']. rewrite In in *. lia.
Qed.
Lemma new_year_next c j : ValidCal c -> ordinal_of c j = year_count c (l_year (lbl c j)) ->
  l_year (lbl c (j + 1)) <> l_year (lbl c j) /\ ordinal_of c (j + 1) = 1.
Proof.
  intros V H. destruct (ordinal_closed c j V) as [B O]. set (y := l_year (lbl c j)) in *.
  pose proof (year_interval c y V) as E. cbv zeta in E. fold (ylo c y) in E.
  assert (NE : l_year (lbl c (j + 1)) <> y).
  { intros X. assert (In : InYear c y (j + 1)) by exact X. apply E in In. lia. }
  split; [exact NE|].
  destruct (ordinal_closed c (j + 1) V) as [B' O']. set (y' := l_year (lbl c (j + 1))) in *.
  pose proof (year_interval c y' V) as E'. cbv zeta in E'. fold (ylo c y') in E'.
  destruct (Z.eq_dec (ylo c y') (j + 1)) as [Eq|N]; [lia|].
  exfalso. assert (In : InYear c y' j) by (apply E'; lia). unfold InYear in In. fold y in In. congruence.
Qed.
Lemma same_year_prev c j : ValidCal c -> 1 < ordinal_of c j ->
  l_year (lbl c (j - 1)) = l_year (lbl c j) /\ ordinal_of c (j - 1) = ordinal_of c j - 1.
Proof.
  intros V H. destruct (ordinal_closed c j V) as [B O]. set (y := l_year (lbl c j)) in *.
  pose proof (year_interval c y V) as E. cbv zeta in E. fold (ylo c y) in E.
  assert (In : InYear c y (j - 1)) by (apply E; lia). unfold InYear in In.
  split; [exact In|]. destruct (ordinal_closed c (j - 1) V) as [B' O']. rewrite In in *. lia.
Qed.
Lemma new_year_prev c j : ValidCal c -> ordinal_of c j = 1 ->
  l_year (lbl c (j - 1)) <> l_year (lbl c j) /\ ordinal_of c (j - 1) = year_count c (l_year (lbl c (j - 1))).
Proof.
  intros V H. destruct (ordinal_closed c j V) as [B O]. set (y := l_year (lbl c j)) in *.
  pose proof (year_interval c y V) as E. cbv zeta in E. fold (ylo c y) in E.
  assert (NE : l_year (lbl c (j - 1)) <> y).
  { intros X. assert (In : InYear c y (j - 1)) by exact X. apply E in In. lia. }
  split; [exact NE|]. apply last_day_ordinal; [exact V|]. replace (j - 1 + 1) with j by lia. fold y. congruence.
Qed.

(* the year that follows / precedes a year in the calendar (skipped years are passed over) *)
Definition next_year (c : cal) (y : Z) : Z :=
  match c with
  | CR r => let py := jyear (r - 1) in let qy := gyear r in if (y =? py) && (py <? qy) then qy else y + 1
  | _ => y + 1
  end.
Definition prev_year (c : cal) (y : Z) : Z :=
  match c with
  | CR r => let py := jyear (r - 1) in let qy := gyear r in if (y =? qy) && (py <? qy) then py else y - 1
  | _ => y - 1
  end.

Lemma year_step_j j : jyear (j + 1) = jyear j \/ jyear (j + 1) = jyear j + 1.
Proof. pose proof (jyear_spec j). pose proof (jyear_spec (j + 1)). pose proof (J0_step (jyear j)). pose proof (ylen_bounds (jleap (jyear j))).
  destruct (Z.lt_ge_cases (j + 1) (J0 (jyear j + 1))); [left; apply jyear_unique; lia|right; apply jyear_unique].
  pose proof (J0_step (jyear j + 1)). pose proof (ylen_bounds (jleap (jyear j + 1))). lia. Qed.
Lemma year_step_g j : gyear (j + 1) = gyear j \/ gyear (j + 1) = gyear j + 1.
Proof. pose proof (gyear_spec j). pose proof (gyear_spec (j + 1)). pose proof (G0_step (gyear j)). pose proof (ylen_bounds (gleap (gyear j))).
  destruct (Z.lt_ge_cases (j + 1) (G0 (gyear j + 1))); [left; apply gyear_unique; lia|right; apply gyear_unique].
  pose proof (G0_step (gyear j + 1)). pose proof (ylen_bounds (gleap (gyear j + 1))). lia. Qed.

Lemma next_year_spec c j : ValidCal c -> l_year (lbl c (j + 1)) <> l_year (lbl c j) ->
  l_year (lbl c (j + 1)) = next_year c (l_year (lbl c j)).
Proof.
  intros V NE. rewrite !lbl_year_eq in *. destruct c as [| |r]; cbn [is_old next_year] in *.
  - destruct (year_step_j j); [contradiction|assumption].
  - destruct (year_step_g j); [contradiction|assumption].
  - cbn [ValidCal] in V. destruct (gap_info r V) as (py & pm & pd & qy & qm & qd & GI).
    assert (PY : jyear (r - 1) = py). { pose proof (gi_pre _ _ _ _ _ _ _ GI) as X. unfold jlabel in X. destruct (md_of _ _); inversion X; reflexivity. }
    assert (QY : gyear r = qy). { pose proof (gi_post _ _ _ _ _ _ _ GI) as X. unfold glabel in X. destruct (md_of _ _); inversion X; reflexivity. }
    rewrite PY, QY.
    assert (PQ : py <= qy).
    { pose proof (gi_lex _ _ _ _ _ _ _ GI) as L. unfold lex_lt, l_year in L. cbn [fst snd] in L. lia. }
    destruct (Z.ltb_spec (j + 1) r) as [A|A]; destruct (Z.ltb_spec j r) as [B|B]; try lia.
    + (* both Julian *)
      assert (jyear (j + 1) <= py).
      { rewrite <- PY. pose proof (jyear_spec (j + 1)). pose proof (jyear_spec (r - 1)).
        destruct (Z.le_gt_cases (jyear (j + 1)) (jyear (r - 1))); [assumption|exfalso].
        assert (J0 (jyear (r - 1) + 1) <= J0 (jyear (j + 1))).
        { destruct (Z.eq_dec (jyear (r - 1) + 1) (jyear (j + 1))) as [<-|]; [lia|]. pose proof (J0_mono (jyear (r - 1) + 1) (jyear (j + 1)) ltac:(lia)). lia. }
        lia. }
      destruct (year_step_j j) as [S|S]; [contradiction|]. replace ((jyear j =? py) && (py <? qy)) with false by lia. exact S.
    + (* j = r - 1 *)
      assert (j = r - 1) by lia. subst j. replace (r - 1 + 1) with r in * by lia. rewrite PY, QY in *.
      replace ((py =? py) && (py <? qy)) with true by lia. reflexivity.
    + (* both Gregorian *)
      assert (qy <= gyear j).
      { rewrite <- QY. pose proof (gyear_spec j). pose proof (gyear_spec r).
        destruct (Z.le_gt_cases (gyear r) (gyear j)); [assumption|exfalso].
        assert (G0 (gyear j + 1) <= G0 (gyear r)).
        { destruct (Z.eq_dec (gyear j + 1) (gyear r)) as [<-|]; [lia|]. pose proof (G0_mono (gyear j + 1) (gyear r) ltac:(lia)). lia. }
        lia. }
      destruct (year_step_g j) as [S|S]; [contradiction|]. replace ((gyear j =? py) && (py <? qy)) with false by lia. exact S.
Qed.
Lemma prev_year_spec c j : ValidCal c -> l_year (lbl c (j - 1)) <> l_year (lbl c j) ->
  l_year (lbl c (j - 1)) = prev_year c (l_year (lbl c j)).
Proof.
  intros V NE. pose proof (next_year_spec c (j - 1) V) as N. replace (j - 1 + 1) with j in N by lia.
  specialize (N ltac:(congruence)). set (y' := l_year (lbl c (j - 1))) in *. set (y := l_year (lbl c j)) in *.
  destruct c as [| |r]; cbn [next_year prev_year] in *; try lia.
  cbn [ValidCal] in V. destruct (gap_info r V) as (py & pm & pd & qy & qm & qd & GI).
  assert (PQ : jyear (r - 1) <= gyear r).
  { assert (PY : jyear (r - 1) = py). { pose proof (gi_pre _ _ _ _ _ _ _ GI) as X. unfold jlabel in X. destruct (md_of _ _); inversion X; reflexivity. }
    assert (QY : gyear r = qy). { pose proof (gi_post _ _ _ _ _ _ _ GI) as X. unfold glabel in X. destruct (md_of _ _); inversion X; reflexivity. }
    pose proof (gi_lex _ _ _ _ _ _ _ GI) as L. unfold lex_lt, l_year in L. cbn [fst snd] in L. lia. }
  destruct ((y' =? jyear (r - 1)) && (jyear (r - 1) <? gyear r)) eqn:C1.
  - replace ((y =? gyear r) && (jyear (r - 1) <? gyear r)) with true by lia. lia.
  - destruct ((y =? gyear r) && (jyear (r - 1) <? gyear r)) eqn:C2; [|lia].
    (* y = qy, py < qy, y' = y - 1 <> py: then year y - 1 lies strictly between py and qy and holds day j - 1: impossible *)
    exfalso. assert (Y : y = gyear r) by lia. assert (Y' : y' = gyear r - 1) by lia.
    assert (Lt : jyear (r - 1) < y') by lia.
    unfold y' in *. rewrite lbl_year_eq in *. cbn [is_old] in *.
    destruct (Z.ltb_spec (j - 1) r) as [A|A].
    + pose proof (jyear_spec (j - 1)). pose proof (jyear_spec (r - 1)).
      assert (J0 (jyear (r - 1) + 1) <= J0 (jyear (j - 1))).
      { destruct (Z.eq_dec (jyear (r - 1) + 1) (jyear (j - 1))) as [<-|]; [lia|]. pose proof (J0_mono (jyear (r - 1) + 1) (jyear (j - 1)) ltac:(lia)). lia. }
      lia.
    + pose proof (gyear_spec (j - 1)). pose proof (gyear_spec r).
      assert (G0 (gyear (j - 1) + 1) <= G0 (gyear r)).
      { destruct (Z.eq_dec (gyear (j - 1) + 1) (gyear r)) as [<-|]; [lia|]. pose proof (G0_mono (gyear (j - 1) + 1) (gyear r) ltac:(lia)). lia. }
      lia.
Qed.
