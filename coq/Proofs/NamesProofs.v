(* Proofs/NamesProofs.v — proofs about Hand/Names.v (Month / Weekday names and numbers).
   Specification vocabulary first (what the C15 statements are written in), then lemmas. *)
From JV Require Import Sem Gen Hand.Names.
Open Scope Z_scope.
Ltac Zify.zify_post_hook ::= Z.to_euclidean_division_equations.

(* ================================================================ specification vocabulary *)
(* two texts that differ at most in the case of ASCII letters *)
Definition same_up_to_ascii_case (s t : list Z) : Prop :=
  Forall2 (fun a b => ascii_lower a = ascii_lower b) s t.

Definition lower (s : list Z) : list Z := map ascii_lower s.

(* the code points that [ascii_lower] moves are exactly 'A'..'Z' (so e.g. U+017F, U+212A, U+0130 are untouched) *)
Lemma ascii_lower_spec c :
  (65 <= c <= 90 /\ ascii_lower c = c + 32) \/ (~ 65 <= c <= 90 /\ ascii_lower c = c).
Proof.
  unfold ascii_lower. destruct ((65 <=? c) && (c <=? 90)) eqn:E; [left | right]; split; try reflexivity; lia.
Qed.

Lemma ascii_lower_idem c : ascii_lower (ascii_lower c) = ascii_lower c.
Proof.
  unfold ascii_lower. destruct ((65 <=? c) && (c <=? 90)) eqn:E; [|rewrite E; reflexivity].
  replace ((65 <=? c + 32) && (c + 32 <=? 90)) with false by lia. reflexivity.
Qed.

(* ================================================================ eq_ignore_ascii_case *)
Lemma same_iff_lower s t : same_up_to_ascii_case s t <-> lower s = lower t.
Proof.
  unfold same_up_to_ascii_case, lower. split.
  - induction 1; cbn [map]; congruence.
  - revert t. induction s as [|a s IH]; intros [|b t] H; cbn [map] in H; try discriminate; constructor.
    + congruence.
    + apply IH. congruence.
Qed.

Lemma eqi_true_iff a b : eq_ignore_ascii_case a b = true <-> lower a = lower b.
Proof.
  unfold lower. revert b. induction a as [|x a IH]; intros [|y b]; cbn [eq_ignore_ascii_case map];
    try (split; [discriminate | discriminate]); try (split; reflexivity).
  rewrite andb_true_iff, IH, Z.eqb_eq. split.
  - intros [-> ->]. reflexivity.
  - intros [= -> ->]. split; reflexivity.
Qed.

Lemma eqi_true_iff_same a b : eq_ignore_ascii_case a b = true <-> same_up_to_ascii_case a b.
Proof. rewrite eqi_true_iff, same_iff_lower. reflexivity. Qed.

Lemma eqi_lower_l a b : eq_ignore_ascii_case (lower a) b = eq_ignore_ascii_case a b.
Proof.
  unfold lower. revert b. induction a as [|x a IH]; intros [|y b]; cbn [eq_ignore_ascii_case map]; try reflexivity.
  rewrite ascii_lower_idem, IH. reflexivity.
Qed.

Lemma same_refl s : same_up_to_ascii_case s s.
Proof. apply same_iff_lower. reflexivity. Qed.
Lemma same_sym s t : same_up_to_ascii_case s t -> same_up_to_ascii_case t s.
Proof. rewrite !same_iff_lower. auto. Qed.
Lemma same_trans s t u : same_up_to_ascii_case s t -> same_up_to_ascii_case t u -> same_up_to_ascii_case s u.
Proof. rewrite !same_iff_lower. congruence. Qed.

(* from_str only looks at the case-folded text *)
Lemma month_from_str_lower s : month_from_str (lower s) = month_from_str s.
Proof. unfold month_from_str, eqi. rewrite !eqi_lower_l. reflexivity. Qed.
Lemma weekday_from_str_lower s : weekday_from_str (lower s) = weekday_from_str s.
Proof. unfold weekday_from_str, eqi. rewrite !eqi_lower_l. reflexivity. Qed.

(* ================================================================ C15_names_roundtrip *)
Lemma month_roundtrip_name m n s :
  Month_name m = Ret n -> same_up_to_ascii_case s (codes n) -> month_from_str s = Some m.
Proof.
  intros Hn Hs. apply same_iff_lower in Hs. rewrite <- month_from_str_lower, Hs.
  destruct m; injection Hn as <-; vm_compute; reflexivity.
Qed.

Lemma month_roundtrip_short m n s :
  Month_short_name m = Ret n -> same_up_to_ascii_case s (codes n) -> month_from_str s = Some m.
Proof.
  intros Hn Hs. apply same_iff_lower in Hs. rewrite <- month_from_str_lower, Hs.
  destruct m; injection Hn as <-; vm_compute; reflexivity.
Qed.

Lemma weekday_roundtrip_name w n s :
  Weekday_name w = Ret n -> same_up_to_ascii_case s (codes n) -> weekday_from_str s = Some w.
Proof.
  intros Hn Hs. apply same_iff_lower in Hs. rewrite <- weekday_from_str_lower, Hs.
  destruct w; injection Hn as <-; vm_compute; reflexivity.
Qed.

Lemma weekday_roundtrip_short w n s :
  Weekday_short_name w = Ret n -> same_up_to_ascii_case s (codes n) -> weekday_from_str s = Some w.
Proof.
  intros Hn Hs. apply same_iff_lower in Hs. rewrite <- weekday_from_str_lower, Hs.
  destruct w; injection Hn as <-; vm_compute; reflexivity.
Qed.

(* the names exist (the generated getters never panic) and Display prints them *)
Lemma month_names_exist m :
  exists n sn, Month_name m = Ret n /\ Month_short_name m = Ret sn /\
               month_display false m = Ret (codes n) /\ month_display true m = Ret (codes sn).
Proof. destruct m; do 2 eexists; repeat split; reflexivity. Qed.
Lemma weekday_names_exist w :
  exists n sn, Weekday_name w = Ret n /\ Weekday_short_name w = Ret sn /\
               weekday_display false w = Ret (codes n) /\ weekday_display true w = Ret (codes sn).
Proof. destruct w; do 2 eexists; repeat split; reflexivity. Qed.

Definition names_roundtrip_statement : Prop :=
  (forall m, exists n sn,
      Month_name m = Ret n /\ Month_short_name m = Ret sn /\
      month_display false m = Ret (codes n) /\ month_display true m = Ret (codes sn) /\
      forall s, same_up_to_ascii_case s (codes n) \/ same_up_to_ascii_case s (codes sn) -> month_from_str s = Some m) /\
  (forall w, exists n sn,
      Weekday_name w = Ret n /\ Weekday_short_name w = Ret sn /\
      weekday_display false w = Ret (codes n) /\ weekday_display true w = Ret (codes sn) /\
      forall s, same_up_to_ascii_case s (codes n) \/ same_up_to_ascii_case s (codes sn) -> weekday_from_str s = Some w).

Lemma names_roundtrip : names_roundtrip_statement.
Proof.
  split.
  - intros m. destruct (month_names_exist m) as (n & sn & H1 & H2 & H3 & H4).
    exists n, sn. repeat split; try assumption.
    intros s [H | H]; [eapply month_roundtrip_name | eapply month_roundtrip_short]; eassumption.
  - intros w. destruct (weekday_names_exist w) as (n & sn & H1 & H2 & H3 & H4).
    exists n, sn. repeat split; try assumption.
    intros s [H | H]; [eapply weekday_roundtrip_name | eapply weekday_roundtrip_short]; eassumption.
Qed.

(* non-vacuity: concrete case-mangled inputs *)
Example names_roundtrip_ex1 : month_from_str (codes "sEpTeMbEr") = Some Month_September.
Proof. reflexivity. Qed.
Example names_roundtrip_ex2 : same_up_to_ascii_case (codes "sEpTeMbEr") (codes "September").
Proof. apply eqi_true_iff_same. reflexivity. Qed.
Example names_roundtrip_ex3 : weekday_from_str (codes "WED") = Some Weekday_Wednesday.
Proof. reflexivity. Qed.
Example names_roundtrip_ex4 : same_up_to_ascii_case (codes "WED") (codes "Wed").
Proof. apply eqi_true_iff_same. reflexivity. Qed.
(* ... and the relation is not trivial: U+017F (long s) and U+212A (Kelvin) do not fold *)
Example names_roundtrip_ex5 : ~ same_up_to_ascii_case [383; 117; 110] (codes "sun") /\ weekday_from_str [383; 117; 110] = None.
Proof. split; [rewrite <- eqi_true_iff_same; discriminate | reflexivity]. Qed.

(* ================================================================ C15_names_only *)
(* one test of the if-chain: in the [true] branch the answer is fixed and the hypothesis gives the folded text *)
Local Ltac hit E side :=
  let H := fresh in
  intros H; injection H as <-; do 2 eexists; split; [reflexivity | split; [reflexivity |
    side; apply same_iff_lower; apply eqi_true_iff in E; exact E]].
Local Ltac tstL s lit :=
  let E := fresh "E" in
  destruct (eq_ignore_ascii_case s (codes lit)) eqn:E; cbn [orb]; [hit E ltac:(left) | clear E].
Local Ltac tstR s lit :=
  let E := fresh "E" in
  destruct (eq_ignore_ascii_case s (codes lit)) eqn:E; cbn [orb]; [hit E ltac:(right) | clear E].

Lemma month_from_str_only s m :
  month_from_str s = Some m ->
  exists n sn, Month_name m = Ret n /\ Month_short_name m = Ret sn /\
    (same_up_to_ascii_case s (codes n) \/ same_up_to_ascii_case s (codes sn)).
Proof.
  unfold month_from_str, eqi.
  tstL s "january"%string.
  tstR s "jan"%string.
  tstL s "february"%string.
  tstR s "feb"%string.
  tstL s "march"%string.
  tstR s "mar"%string.
  tstL s "april"%string.
  tstR s "apr"%string.
  tstL s "may"%string.
  tstL s "june"%string.
  tstR s "jun"%string.
  tstL s "july"%string.
  tstR s "jul"%string.
  tstL s "august"%string.
  tstR s "aug"%string.
  tstL s "september"%string.
  tstR s "sep"%string.
  tstL s "october"%string.
  tstR s "oct"%string.
  tstL s "november"%string.
  tstR s "nov"%string.
  tstL s "december"%string.
  tstR s "dec"%string.
  discriminate.
Qed.

Lemma weekday_from_str_only s w :
  weekday_from_str s = Some w ->
  exists n sn, Weekday_name w = Ret n /\ Weekday_short_name w = Ret sn /\
    (same_up_to_ascii_case s (codes n) \/ same_up_to_ascii_case s (codes sn)).
Proof.
  unfold weekday_from_str, eqi.
  tstL s "sunday"%string.
  tstR s "sun"%string.
  tstL s "monday"%string.
  tstR s "mon"%string.
  tstL s "tuesday"%string.
  tstR s "tue"%string.
  tstL s "wednesday"%string.
  tstR s "wed"%string.
  tstL s "thursday"%string.
  tstR s "thu"%string.
  tstL s "friday"%string.
  tstR s "fri"%string.
  tstL s "saturday"%string.
  tstR s "sat"%string.
  discriminate.
Qed.

Definition names_only_statement : Prop :=
  (forall s m, month_from_str s = Some m ->
     exists n sn, Month_name m = Ret n /\ Month_short_name m = Ret sn /\
       (same_up_to_ascii_case s (codes n) \/ same_up_to_ascii_case s (codes sn))) /\
  (forall s w, weekday_from_str s = Some w ->
     exists n sn, Weekday_name w = Ret n /\ Weekday_short_name w = Ret sn /\
       (same_up_to_ascii_case s (codes n) \/ same_up_to_ascii_case s (codes sn))).

Lemma names_only : names_only_statement.
Proof. split; [exact month_from_str_only | exact weekday_from_str_only]. Qed.

(* non-vacuity: the hypothesis is satisfiable, and near misses are rejected *)
Example names_only_ex1 : month_from_str (codes "DEC") = Some Month_December.
Proof. reflexivity. Qed.
Example names_only_ex2 : month_from_str (codes "Sept") = None /\ month_from_str (codes "") = None /\
                         month_from_str (codes "Marc") = None /\ weekday_from_str (codes "Thur") = None.
Proof. repeat split. Qed.

(* ================================================================ C15_numbers *)
Lemma month_try_from_iff lo hi v m :
  lo <= v <= hi -> (month_try_from lo hi v = Some m <-> Month_number m = Ret v).
Proof.
  intros Hr. unfold month_try_from, in_rangeb, Month_number.
  replace ((lo <=? v) && (v <=? hi)) with true by lia.
  split.
  - destruct v as [|p|p]; try discriminate.
    do 4 (try destruct p as [p|p|]); try discriminate; intros [= <-]; reflexivity.
  - intros [= <-]. destruct m; reflexivity.
Qed.

Lemma month_try_from_none lo hi v :
  month_try_from lo hi v = None <-> ~ (lo <= v <= hi /\ 1 <= v <= 12).
Proof.
  unfold month_try_from, in_rangeb.
  destruct ((lo <=? v) && (v <=? hi)) eqn:E; [| split; [lia | reflexivity]].
  split.
  - intros H [_ Hv].
    assert (Hc : v = 1 \/ v = 2 \/ v = 3 \/ v = 4 \/ v = 5 \/ v = 6 \/ v = 7 \/ v = 8 \/ v = 9 \/ v = 10 \/ v = 11 \/ v = 12) by lia.
    repeat (destruct Hc as [-> | Hc]; [discriminate H|]). subst v. discriminate H.
  - intros H. destruct v as [|p|p]; try reflexivity.
    do 4 (try destruct p as [p|p|]); try reflexivity; exfalso; apply H; lia.
Qed.

Lemma weekday_try_from_iff lo hi v w :
  lo <= v <= hi -> (weekday_try_from lo hi v = Ret (Some w) <-> Weekday_number w = Ret v).
Proof.
  intros Hr. unfold weekday_try_from, in_rangeb, jdnum_try_from, Weekday_number, chko, Weekday_try_from_const.
  replace ((lo <=? v) && (v <=? hi)) with true by lia.
  split.
  - destruct ((i32_min <=? v) && (v <=? i32_max)); [|discriminate].
    destruct v as [|p|p]; try discriminate.
    do 3 (try destruct p as [p|p|]); try discriminate; intros [= <-]; reflexivity.
  - intros [= <-]. destruct w; reflexivity.
Qed.

Lemma weekday_try_from_total lo hi v : weekday_try_from lo hi v <> Panic.
Proof.
  unfold weekday_try_from, jdnum_try_from, Weekday_try_from_const.
  destruct (in_rangeb lo hi v); [|discriminate]. destruct (chko i32_min i32_max v); discriminate.
Qed.

Definition numbers_statement : Prop :=
  (forall lo hi v m, lo <= v <= hi -> (month_try_from lo hi v = Some m <-> Month_number m = Ret v)) /\
  (forall lo hi v w, lo <= v <= hi -> (weekday_try_from lo hi v = Ret (Some w) <-> Weekday_number w = Ret v)) /\
  (forall lo hi v, weekday_try_from lo hi v <> Panic) /\
  (* the 12 Rust source types *)
  (forall t v m, ity_lo t <= v <= ity_hi t -> (month_try_from_ty t v = Some m <-> Month_number m = Ret v)) /\
  (forall t v w, ity_lo t <= v <= ity_hi t -> (weekday_try_from_ty t v = Ret (Some w) <-> Weekday_number w = Ret v)).

Lemma numbers : numbers_statement.
Proof.
  repeat split; try (apply month_try_from_iff; assumption); try (apply weekday_try_from_iff; assumption);
    try (apply weekday_try_from_total).
Qed.

(* non-vacuity *)
Example numbers_ex1 : month_try_from_ty Ty_u8 12 = Some Month_December /\ Month_number Month_December = Ret 12.
Proof. split; reflexivity. Qed.
Example numbers_ex2 : month_try_from_ty Ty_i64 13 = None /\ month_try_from_ty Ty_i8 0 = None /\ month_try_from_ty Ty_i128 (-1) = None.
Proof. repeat split. Qed.
Example numbers_ex3 : weekday_try_from_ty Ty_u64 7 = Ret (Some Weekday_Sunday) /\ Weekday_number Weekday_Sunday = Ret 7.
Proof. split; reflexivity. Qed.
(* a value that is a u64 but not a Jdnum: 2^32 + 1 must not wrap around to Monday *)
Example numbers_ex4 : weekday_try_from_ty Ty_u64 4294967297 = Ret None /\ weekday_try_from_ty Ty_i8 0 = Ret None /\
                      weekday_try_from_ty Ty_i64 8 = Ret None.
Proof. repeat split. Qed.
