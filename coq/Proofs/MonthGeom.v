(* MonthGeom.v — spec-level geometry of the months of a reforming calendar: which days of month
   (y, m) are old-style / new-style, by position of (y, m) relative to the month of the last Julian
   date (py, pm) and the month of the first Gregorian date (qy, qm). *)
From Coq Require Import ZArith Lia ZifyBool Bool List.
From JV Require Import Spec.
From JV.Proofs Require Import SpecFacts GapFacts.
Open Scope Z_scope.
Ltac Zify.zify_post_hook ::= Z.to_euclidean_division_equations.

Definition ym_ltP (y m y' m' : Z) : Prop := y < y' \/ (y = y' /\ m < m').

Lemma month_before_j y m y' m' : 1 <= m <= 12 -> 1 <= m' <= 12 -> ym_ltP y m y' m' ->
  jdn_j y m 1 + mlen (jleap y) m <= jdn_j y' m' 1.
Proof.
  intros M M' L. pose proof (mlen_bounds (jleap y) m). pose proof (mlen_bounds (jleap y') m').
  assert (V : valid_md (jleap y) m (mlen (jleap y) m)) by (unfold valid_md; lia).
  assert (V' : valid_md (jleap y') m' 1) by (unfold valid_md; lia).
  pose proof (proj2 (jdn_j_lex y m (mlen (jleap y) m) y' m' 1 V V')) as X.
  unfold lex_lt, l_year, l_month, l_day, ym_ltP in *. cbn [fst snd] in X. unfold jdn_j in *. lia.
Qed.
Lemma month_before_g y m y' m' : 1 <= m <= 12 -> 1 <= m' <= 12 -> ym_ltP y m y' m' ->
  jdn_g y m 1 + mlen (gleap y) m <= jdn_g y' m' 1.
Proof.
  intros M M' L. pose proof (mlen_bounds (gleap y) m). pose proof (mlen_bounds (gleap y') m').
  assert (V : valid_md (gleap y) m (mlen (gleap y) m)) by (unfold valid_md; lia).
  assert (V' : valid_md (gleap y') m' 1) by (unfold valid_md; lia).
  pose proof (proj2 (jdn_g_lex y m (mlen (gleap y) m) y' m' 1 V V')) as X.
  unfold lex_lt, l_year, l_month, l_day, ym_ltP in *. cbn [fst snd] in X. unfold jdn_g in *. lia.
Qed.

Section Geometry.
  Variables (r py pm pd qy qm qd : Z).
  Hypothesis GI : GapInfo r py pm pd qy qm qd.

  Lemma g_pm : 1 <= pm <= 12. Proof. destruct (gi_vp _ _ _ _ _ _ _ GI); assumption. Qed.
  Lemma g_qm : 1 <= qm <= 12. Proof. destruct (gi_vq _ _ _ _ _ _ _ GI); assumption. Qed.
  Lemma g_pq : ym_ltP py pm qy qm \/ (py = qy /\ pm = qm /\ pd < qd).
  Proof. pose proof (gi_lex _ _ _ _ _ _ _ GI) as L. unfold lex_lt, l_year, l_month, l_day, ym_ltP in *. cbn [fst snd] in L. lia. Qed.

  (* r in terms of the two boundary months *)
  Lemma g_rp : r = jdn_j py pm 1 + pd /\ 1 <= pd <= mlen (jleap py) pm.
  Proof. pose proof (gi_ep _ _ _ _ _ _ _ GI). destruct (gi_vp _ _ _ _ _ _ _ GI). unfold jdn_j in *. lia. Qed.
  Lemma g_rq : r = jdn_g qy qm 1 + qd - 1 /\ 1 <= qd <= mlen (gleap qy) qm.
  Proof. pose proof (gi_eq _ _ _ _ _ _ _ GI). destruct (gi_vq _ _ _ _ _ _ _ GI). unfold jdn_g in *. lia. Qed.
  (* at least one day is skipped when both boundary dates fall in one month *)
  Lemma g_intra : py = qy -> pm = qm -> pd + 2 <= qd.
  Proof.
    intros -> ->. pose proof (gi_fwd _ _ _ _ _ _ _ GI). pose proof (gi_ep _ _ _ _ _ _ _ GI). unfold jdn_j in *. lia.
  Qed.

  Variables (y m : Z).
  Hypothesis Mr : 1 <= m <= 12.

  Lemma old_less : ym_ltP y m py pm -> old_mdays (CR r) y m = mlen (jleap y) m.
  Proof.
    intros L. cbn [old_mdays]. pose proof (month_before_j y m py pm Mr g_pm L). pose proof g_rp. pose proof (mlen_bounds (jleap y) m). lia.
  Qed.
  Lemma old_eq : y = py -> m = pm -> old_mdays (CR r) y m = pd.
  Proof. intros -> ->. cbn [old_mdays]. pose proof g_rp. lia. Qed.
  Lemma old_greater : ym_ltP py pm y m -> old_mdays (CR r) y m = 0.
  Proof.
    intros L. cbn [old_mdays]. pose proof (month_before_j py pm y m g_pm Mr L). pose proof g_rp. pose proof (mlen_bounds (jleap y) m). lia.
  Qed.
  Lemma new_less : ym_ltP y m qy qm -> new_mdays (CR r) y m = 0.
  Proof.
    intros L. cbn [new_mdays new_mfirst]. pose proof (month_before_g y m qy qm Mr g_qm L). pose proof g_rq. pose proof (mlen_bounds (gleap y) m). lia.
  Qed.
  Lemma new_eq : y = qy -> m = qm -> new_mfirst (CR r) y m = qd /\ new_mdays (CR r) y m = mlen (gleap y) m - qd + 1.
  Proof. intros -> ->. cbn [new_mdays new_mfirst]. pose proof g_rq. lia. Qed.
  Lemma new_greater : ym_ltP qy qm y m -> new_mfirst (CR r) y m = 1 /\ new_mdays (CR r) y m = mlen (gleap y) m.
  Proof.
    intros L. cbn [new_mdays new_mfirst]. pose proof (month_before_g qy qm y m g_qm Mr L). pose proof g_rq. pose proof (mlen_bounds (gleap y) m). lia.
  Qed.
  Lemma natural_len_eq :
    natural_len (CR r) y m = if (y <? qy) || ((y =? qy) && (m <? qm)) then mlen (jleap y) m else mlen (gleap y) m.
  Proof. cbn [natural_len]. rewrite (gi_post _ _ _ _ _ _ _ GI). reflexivity. Qed.
End Geometry.
