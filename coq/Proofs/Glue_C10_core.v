(* Glue_C10_core.v — proofs of the statements of Properties/C10_core.v that need a few steps beyond a library lemma
   (rephrasing only: no induction, no case analysis of the model).  The scripts were moved out of the property file so
   that it contains nothing but statements closed by [exact]. *)
From JV Require Import Sem Gen Spec SpecX.
From JV.Proofs Require Import SpecFacts Cal Core AtJdn SuccPred.
Open Scope Z_scope.

Lemma C10_succ_lemma : forall c j, ValidCal c -> in_i32 j ->
  exists d, Calendar_at_jdn (cal_of c) j = Ret d /\
    ((j < i32_max /\ exists d', Calendar_at_jdn (cal_of c) (j + 1) = Ret d' /\ Date_succ d = Ret (Some d')) \/
     (j = i32_max /\ Date_succ d = Ret None)).
Proof.
  intros c j V Hj. exists (date_of c j). split; [apply at_jdn_ok; assumption|]. rewrite succ_ok by assumption.
  destruct (Z.ltb_spec j i32_max); [left; split; [assumption|]; exists (date_of c (j + 1)); split; [apply at_jdn_ok; [assumption|range]|reflexivity]|right; split; [range|reflexivity]].
Qed.

Lemma C10_pred_lemma : forall c j, ValidCal c -> in_i32 j ->
  exists d, Calendar_at_jdn (cal_of c) j = Ret d /\
    ((i32_min < j /\ exists d', Calendar_at_jdn (cal_of c) (j - 1) = Ret d' /\ Date_pred d = Ret (Some d')) \/
     (j = i32_min /\ Date_pred d = Ret None)).
Proof.
  intros c j V Hj. exists (date_of c j). split; [apply at_jdn_ok; assumption|]. rewrite pred_ok by assumption.
  destruct (Z.ltb_spec i32_min j); [left; split; [assumption|]; exists (date_of c (j - 1)); split; [apply at_jdn_ok; [assumption|range]|reflexivity]|right; split; [range|reflexivity]].
Qed.

