(* Walk.v — the two twelve-fold unrolled month walks (ordinal -> month/day, month/day-ordinal -> ordinal)
   against the month sums of the specification. *)
From JV Require Import Sem Gen Spec SpecX.
From JV.Proofs Require Import SpecFacts GapFacts Cal Cmp Inner Year MonthGeom Shape Month MonthSpec SpecSums Meq.
Import ListNotations.
Open Scope Z_scope.
Ltac Zify.zify_post_hook ::= Z.to_euclidean_division_equations.

Definition all_months : list Month :=
  [Month_January; Month_February; Month_March; Month_April; Month_May; Month_June; Month_July;
   Month_August; Month_September; Month_October; Month_November; Month_December].

(* ------------------------------------------------------------------ structure of ordinal2ymddo *)
Definition walk_step (self : Calendar) (year : Z) (mon : Month) (days : Z) (k : Z -> M WalkRes) : M WalkRes :=
  t <- Calendar_month_shape self year mon;;
  match t with
  | Some shape =>
    t' <- MonthShape_nth_day shape days;;
    match t' with
    | Some day => Ret (Ok (mon, day, days))
    | _ => l <- MonthShape_len shape;; days' <- u32_sub days l;; k days'
    end
  | _ => k days
  end.
Fixpoint gwalk (self : Calendar) (year : Z) (ms : list Month) (days : Z) (k : Z -> M WalkRes) : M WalkRes :=
  match ms with
  | [] => k days
  | m :: rest => walk_step self year m days (fun d => gwalk self year rest d k)
  end.
Lemma ordinal2ymddo_unfold self year ordinal : 0 <= ordinal ->
  Calendar_ordinal2ymddo self year ordinal =
  (t0 <- Calendar_year_length self year;;
   if (ordinal <? 1) || (t0 <? ordinal)
   then Ret (Err (DateError_OrdinalOutOfRange year ordinal t0))
   else gwalk self year all_months ordinal (fun _ => Panic)).
Proof.
  intros Hu.
  first [ reflexivity
        | unfold Calendar_ordinal2ymddo, all_months; cbn [gwalk]; unfold walk_step; timeout 600 meq ].
Qed.

(* the month and in-month position of the o-th date of a year *)

Lemma walk_step_ok c y mon days k : ValidCal c -> in_i32 y -> 1 <= days -> in_u32 days ->
  walk_step (cal_of c) y mon days k =
  if days <=? month_count c y (Month_discr mon)
  then Ret (Ok (mon, sh_nth (shape_of c y (Month_discr mon)) days, days))
  else k (days - month_count c y (Month_discr mon)).
Proof.
  intros V Hy D1 DU. unfold walk_step. rewrite month_shape_ok by assumption. cbn [bind]. unfold month_shape_spec.
  pose proof (Month_discr_range mon) as Mr. pose proof (month_count_range c y (Month_discr mon)) as MC.
  destruct (Z.eqb_spec (month_count c y (Month_discr mon)) 0) as [E|N].
  - rewrite E. replace (days <=? 0) with false by lia. f_equal. lia.
  - assert (Ex : 0 < month_count c y (Month_discr mon)) by lia.
    pose proof (shape_of_wf c y (Month_discr mon) V Mr Ex) as W.
    rewrite nth_day_ok by assumption. cbn [bind]. rewrite (shape_of_len c y (Month_discr mon) V Mr Ex).
    replace (1 <=? days) with true by lia. cbn [andb].
    destruct (Z.leb_spec days (month_count c y (Month_discr mon))); [reflexivity|].
    rewrite len_ok by assumption. cbn [bind]. rewrite (shape_of_len c y (Month_discr mon) V Mr Ex).
    rewrite u32_sub_ok by range. reflexivity.
Qed.

Lemma gwalk_ok c y ms days k : ValidCal c -> in_i32 y -> 1 <= days -> in_u32 days ->
  (forall d d', k d = k d') ->
  gwalk (cal_of c) y ms days k =
  match locate_in c y (map Month_discr ms) days with
  | Some (m, p) => Ret (Ok (month_of_Z m, sh_nth (shape_of c y m) p, p))
  | None => k 0
  end.
Proof.
  intros V Hy D1 DU Kc. revert days D1 DU. induction ms as [|m rest IH]; intros days D1 DU; cbn [gwalk map locate_in].
  - apply Kc.
  - rewrite walk_step_ok by assumption.
    destruct (Z.leb_spec days (month_count c y (Month_discr m))).
    + rewrite month_of_Z_discr. reflexivity.
    + pose proof (month_count_range c y (Month_discr m)). apply IH; [lia|range].
Qed.

Lemma locate_in_spec c y n : forall k days, Z.of_nat n = 13 - k -> 1 <= k ->
  1 <= days <= msum c y 13 - msum c y k ->
  exists m, k <= m <= 12 /\ locate_in c y (zseq k n) days = Some (m, days - (msum c y m - msum c y k))
            /\ msum c y m - msum c y k < days <= msum c y (m + 1) - msum c y k.
Proof.
  induction n as [|n IH]; intros k days Hn Hk H.
  - exfalso. assert (k = 13) by lia. subst k. lia.
  - cbn [zseq locate_in].
    assert (Kr : 1 <= k <= 12) by lia.
    pose proof (msum_succ c y k Kr) as S.
    assert (Hn' : Z.of_nat n = 13 - (k + 1)) by lia. clear Hn.
    destruct (Z.leb_spec days (month_count c y k)) as [Le|Gt].
    + exists k. split; [lia|]. split; [f_equal; f_equal; lia|]. clear IH Hn'. lia.
    + destruct (IH (k + 1) (days - month_count c y k) Hn' ltac:(lia) ltac:(clear IH Hn'; lia)) as (m & Mr & E & B).
      exists m. split; [lia|]. split; [rewrite E; f_equal; f_equal; clear IH Hn' E; lia|clear IH Hn' E; lia].
Qed.
Lemma locate_spec c y o : 1 <= o <= year_count c y ->
  exists m, 1 <= m <= 12 /\ locate c y o = Some (m, o - msum c y m) /\ msum c y m < o <= msum c y (m + 1).
Proof.
  intros H. pose proof (locate_in_spec c y 12 1 o eq_refl ltac:(lia)) as L.
  rewrite msum_total, msum_1 in L.
  destruct (L ltac:(lia)) as (m & Mr & E & B). exists m. split; [lia|]. unfold locate. rewrite E. split; [f_equal; f_equal; lia|lia].
Qed.

Lemma all_months_discr : map Month_discr all_months = zseq 1 12.
Proof. reflexivity. Qed.

Lemma ordinal2ymddo_ok c y o : ValidCal c -> in_i32 y -> in_u32 o ->
  Calendar_ordinal2ymddo (cal_of c) y o = Ret (ymddo_spec c y o).
Proof.
  intros V Hy Ho. rewrite ordinal2ymddo_unfold by (unfold in_u32 in Ho; lia). rewrite year_length_ok by assumption. cbn [bind]. unfold ymddo_spec.
  destruct ((o <? 1) || (year_count c y <? o)) eqn:E; [reflexivity|].
  rewrite gwalk_ok; try assumption; try lia; [|reflexivity].
  rewrite all_months_discr. fold (locate c y o).
  destruct (locate_spec c y o ltac:(lia)) as (m & Mr & L & B). rewrite L. reflexivity.
Qed.

(* ------------------------------------------------------------------ structure of ymdo2ordinal *)
Definition ystep (self : Calendar) (year : Z) (month : Month) (day_ordinal : Z) (mm : Month) (result : Z) (k : Z -> M Z) : M Z :=
  t <- Month_eq mm month;;
  if t then (t1 <- u32_add result day_ordinal;; Ret t1)
  else (t' <- Calendar_month_shape self year mm;;
        match t' with
        | Some ms => l <- MonthShape_len ms;; r <- u32_add result l;; k r
        | _ => k result
        end).
Fixpoint ywalk (self : Calendar) (year : Z) (month : Month) (day_ordinal : Z) (ms : list Month) (result : Z) : M Z :=
  match ms with
  | [] => Panic
  | mm :: rest => ystep self year month day_ordinal mm result (fun r => ywalk self year month day_ordinal rest r)
  end.
Lemma ymdo2ordinal_unfold self year month day_ordinal :
  Calendar_ymdo2ordinal self year month day_ordinal = ywalk self year month day_ordinal all_months 0.
Proof.
  (* equal up to the order of the operands of the month comparison: bring every comparison into the form
     [Month_discr month =? constant] on both sides; the rest is the same twelve-fold chain *)
  first [ reflexivity
        | unfold Calendar_ymdo2ordinal, all_months; cbn [ywalk]; unfold ystep, Month_eq;
          rewrite ?(Z.eqb_sym (Month_discr Month_January)), ?(Z.eqb_sym (Month_discr Month_February)), ?(Z.eqb_sym (Month_discr Month_March)),
                  ?(Z.eqb_sym (Month_discr Month_April)), ?(Z.eqb_sym (Month_discr Month_May)), ?(Z.eqb_sym (Month_discr Month_June)),
                  ?(Z.eqb_sym (Month_discr Month_July)), ?(Z.eqb_sym (Month_discr Month_August)), ?(Z.eqb_sym (Month_discr Month_September)),
                  ?(Z.eqb_sym (Month_discr Month_October)), ?(Z.eqb_sym (Month_discr Month_November)), ?(Z.eqb_sym (Month_discr Month_December));
          reflexivity ].
Qed.

Lemma ywalk_ok c y month p n result : ValidCal c -> in_i32 y -> 0 <= p <= 1000 -> (n <= 12)%nat ->
  let k := 13 - Z.of_nat n in
  k <= Month_discr month -> result = msum c y k ->
  ywalk (cal_of c) y month p (map month_of_Z (zseq k n)) result = Ret (msum c y (Month_discr month) + p).
Proof.
  intros V Hy Hp. revert result. induction n as [|n IH]; intros result Hn k Hk Hr.
  - exfalso. subst k. pose proof (Month_discr_range month). cbn in Hk. lia.
  - subst k. cbn [zseq map ywalk]. set (k := 13 - Z.of_nat (S n)) in *.
    assert (Kr : 1 <= k <= 12) by (pose proof (Month_discr_range month); lia).
    unfold ystep. rewrite Month_eq_ok. cbn [bind]. rewrite Month_discr_of_Z by exact Kr.
    pose proof (msum_succ c y k Kr) as S. pose proof (month_count_range c y k) as MC.
    assert (MB : 0 <= msum c y k <= 732).
    { rewrite msum_closed by lia. pose proof (ylen_bounds (jleap y)). pose proof (ylen_bounds (gleap y)).
      assert (0 <= cum13 (jleap y) k <= ylen (jleap y)).
      { unfold cum13. destruct (k =? 13); [lia|]. pose proof (cum_bounds (jleap y) k Kr). pose proof (mlen_bounds (jleap y) k). lia. }
      assert (0 <= cum13 (gleap y) k <= ylen (gleap y)).
      { unfold cum13. destruct (k =? 13); [lia|]. pose proof (cum_bounds (gleap y) k Kr). pose proof (mlen_bounds (gleap y) k). lia. }
      destruct c; cbn [osum nsum]; unfold clamp; lia. }
    destruct (Z.eqb_spec k (Month_discr month)) as [E|N].
    + rewrite u32_add_ok by range. cbn [bind]. rewrite <- E. f_equal. lia.
    + rewrite month_shape_ok by assumption. cbn [bind]. unfold month_shape_spec. rewrite Month_discr_of_Z by exact Kr.
      replace (k + 1) with (13 - Z.of_nat n) in * by lia.
      destruct (Z.eqb_spec (month_count c y k) 0) as [Z0|NZ].
      * apply IH; [lia|lia|lia].
      * assert (Ex : 0 < month_count c y k) by lia.
        pose proof (shape_of_wf c y k V Kr Ex) as W. rewrite len_ok by assumption. cbn [bind].
        rewrite (shape_of_len c y k V Kr Ex). pose proof (sh_len_pos _ W) as SL. rewrite (shape_of_len c y k V Kr Ex) in SL.
        rewrite u32_add_ok by range. cbn [bind]. apply IH; [lia|lia|lia].
Qed.

Lemma ymdo2ordinal_ok c y month p : ValidCal c -> in_i32 y -> 0 <= p <= 1000 ->
  Calendar_ymdo2ordinal (cal_of c) y month p = Ret (msum c y (Month_discr month) + p).
Proof.
  intros V Hy Hp. rewrite ymdo2ordinal_unfold.
  change all_months with (map month_of_Z (zseq (13 - Z.of_nat 12) 12)).
  apply ywalk_ok; try assumption; try lia.
  - pose proof (Month_discr_range month). cbn. lia.
  - cbn. symmetry. apply msum_1.
Qed.
