(* Glue_C04_core.v — proofs of the statements of Properties/C04_core.v that need a few steps beyond a library lemma
   (rephrasing only: no induction, no case analysis of the model).  The scripts were moved out of the property file so
   that it contains nothing but statements closed by [exact]. *)
From JV Require Import Sem Gen Spec SpecX.
From JV.Proofs Require Import SpecFacts Cal Core AtJdn Boundary SpecSets Year SuccPred.
Open Scope Z_scope.

Lemma C04_ordinals_count_lemma : forall c j, ValidCal c -> in_i32 j ->
  exists d, Calendar_at_jdn (cal_of c) j = Ret d /\ OrdinalIs c j (Date_f_ordinal d) /\ DayOrdinalIs c j (Date_f_day_ordinal d).
Proof.
  intros c j V Hj. exists (date_of c j). split; [apply at_jdn_ok; assumption|].
  destruct (date_of_fields c j) as (_ & _ & Fo & _ & _ & _ & Fd). rewrite Fo, Fd.
  split; [apply ordinal_is; exact V|apply day_ordinal_is; exact V].
Qed.

Lemma C04_zero_based_lemma : forall c j, ValidCal c -> in_i32 j ->
  exists d, Calendar_at_jdn (cal_of c) j = Ret d /\
    Date_ordinal0 d = Ret (Date_f_ordinal d - 1) /\ Date_day_ordinal0 d = Ret (Date_f_day_ordinal d - 1) /\
    Date_ordinal d = Ret (Date_f_ordinal d) /\ Date_day_ordinal d = Ret (Date_f_day_ordinal d).
Proof.
  intros c j V Hj. exists (date_of c j). split; [apply at_jdn_ok; assumption|].
  destruct (date_of_fields c j) as (_ & _ & Fo & _ & _ & _ & Fd). rewrite Fo, Fd.
  destruct (ordinal0_ok c j V Hj) as [A B]. unfold Date_ordinal, Date_day_ordinal. rewrite Fo, Fd. repeat split; assumption || reflexivity.
Qed.

Lemma C04_last_day_is_length_lemma : forall c j, ValidCal c -> in_i32 j -> l_year (lbl c (j + 1)) <> l_year (lbl c j) ->
  exists d, Calendar_at_jdn (cal_of c) j = Ret d /\ Calendar_year_length (cal_of c) (Date_f_year d) = Ret (Date_f_ordinal d).
Proof.
  intros c j V Hj NE. exists (date_of c j). split; [apply at_jdn_ok; assumption|].
  destruct (date_of_fields c j) as (_ & Fy & Fo & _). rewrite Fy, Fo.
  rewrite year_length_ok by (try assumption; apply year_i32; exact Hj). f_equal. symmetry. apply last_day_ordinal; assumption.
Qed.

