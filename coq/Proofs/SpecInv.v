(* SpecInv.v — spec-level inverse: the day number of the o-th date of a year, and the date's
   label/ordinals recovered from (year, month, day). *)
From JV Require Import Sem Gen Spec SpecX.
From JV.Proofs Require Import SpecFacts GapFacts Cal Cmp MonthGeom Shape Month MonthSpec SpecSums Walk SpecOrd.
Open Scope Z_scope.
Ltac Zify.zify_post_hook ::= Z.to_euclidean_division_equations.

Lemma ordinal_inv c y o : ValidCal c -> 1 <= o <= year_count c y ->
  let j := jdn_of_ordinal c y o in l_year (lbl c j) = y /\ ordinal_of c j = o.
Proof.
  intros V H. cbv zeta. unfold jdn_of_ordinal, year_count in *.
  pose proof (J0_step y) as JS. pose proof (G0_step y) as GS.
  pose proof (ylen_bounds (jleap y)). pose proof (ylen_bounds (gleap y)).
  assert (LY : forall j, l_year (lbl c j) = if is_old c j then jyear j else gyear j).
  { intros j. unfold lbl. destruct (is_old c j); [unfold jlabel|unfold glabel]; destruct (md_of _ _); reflexivity. }
  destruct (Z.leb_spec o (old_days c y)) as [Old|New].
  - assert (IO : is_old c (J0 y + o - 1) = true).
    { destruct c; cbn [is_old old_days] in *; try reflexivity; try lia. }
    assert (JY : jyear (J0 y + o - 1) = y).
    { apply jyear_unique. destruct c; cbn [old_days] in *; lia. }
    rewrite LY, IO. unfold ordinal_of. rewrite IO, JY. split; [reflexivity|lia].
  - assert (IO : is_old c (new_start c y + (o - old_days c y) - 1) = false).
    { destruct c; cbn [is_old old_days new_days new_start] in *; try reflexivity; try lia. }
    assert (GY : gyear (new_start c y + (o - old_days c y) - 1) = y).
    { apply gyear_unique. destruct c; cbn [old_days new_days new_start] in *; lia. }
    rewrite LY, IO. unfold ordinal_of. rewrite IO, GY. split; [reflexivity|lia].
Qed.

(* the date of calendar c with a given existing (year, month, day) *)
Lemma ymd_inv c y m d p j : ValidCal c -> 1 <= m <= 12 -> 0 < month_count c y m ->
  sh_in (shape_of c y m) d = true -> p = sh_ord (shape_of c y m) d -> j = jdn_of_ordinal c y (msum c y m + p) ->
  lbl c j = (y, m, d) /\ ordinal_of c j = msum c y m + p /\ day_ordinal_of c j = p.
Proof.
  intros V Mr Ex In -> ->.
  pose proof (shape_of_wf c y m V Mr Ex) as W. pose proof (sh_ord_range _ d W In) as PR.
  rewrite (shape_of_len c y m V Mr Ex) in PR.
  set (p := sh_ord (shape_of c y m) d) in *. set (o := msum c y m + p).
  pose proof (msum_succ c y m Mr) as S.
  assert (OR : 1 <= o <= year_count c y).
  { rewrite <- msum_total. pose proof (msum_le c y 1 m ltac:(lia) ltac:(lia) ltac:(lia)). rewrite msum_1 in *.
    pose proof (msum_le c y (m + 1) 13 ltac:(lia) ltac:(lia) ltac:(lia)). subst o. lia. }
  destruct (ordinal_inv c y o V OR) as [LY OO]. set (j := jdn_of_ordinal c y o) in *.
  pose proof (ord_locate c j V) as OL. unfold OrdLocate in OL.
  destruct (lbl c j) as [[y' m'] d'] eqn:EL. cbn [l_year fst] in LY. subst y'.
  destruct OL as (Mr' & B & DO & NTH). rewrite OO in *.
  assert (m' = m).
  { destruct (Z.lt_trichotomy m m') as [Lt|[E|Gt]]; [|auto|].
    - pose proof (msum_le c y (m + 1) m' ltac:(lia) ltac:(lia) ltac:(lia)). subst o. lia.
    - pose proof (msum_le c y (m' + 1) m ltac:(lia) ltac:(lia) ltac:(lia)). subst o. lia. }
  subst m'. assert (DP : day_ordinal_of c j = p) by (subst o; lia).
  rewrite DP in NTH. subst p. rewrite (sh_nth_ord _ d W In) in NTH. subst d'.
  split; [reflexivity|]. split; [reflexivity|exact DP].
Qed.
