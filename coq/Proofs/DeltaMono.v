(* DeltaMono.v — the Julian/Gregorian offset of a label never decreases along the calendar. *)
From Coq Require Import ZArith Lia ZifyBool Bool.
From JV Require Import Spec.
From JV.Proofs Require Import SpecFacts GapFacts.
Open Scope Z_scope.
Ltac Zify.zify_post_hook ::= Z.to_euclidean_division_equations.

Lemma delta_mono y m y' m' : 1 <= m <= 12 -> 1 <= m' <= 12 ->
  (y < y' \/ (y = y' /\ m <= m')) -> delta y m <= delta y' m'.
Proof.
  intros H H' Hle. unfold delta, J0, G0, after_feb, jleap, gleap.
  destruct (Z.eqb_spec (y mod 4) 0), (Z.eqb_spec (y mod 100) 0), (Z.eqb_spec (y mod 400) 0), (Z.leb_spec 3 m),
           (Z.eqb_spec (y' mod 4) 0), (Z.eqb_spec (y' mod 100) 0), (Z.eqb_spec (y' mod 400) 0), (Z.leb_spec 3 m');
    cbn [negb orb andb]; try lia.
Qed.
