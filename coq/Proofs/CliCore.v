(* CliCore.v — the hypotheses that CliProofs.v / JsonProofs.v leave "to the core development" are discharged here:
   [LibTotal] (the library calls of the command never panic on the calendars the command can construct) and
   [date_ok] (the dates it prints carry the selected calendar and non-negative fields). *)
From JV Require Import Sem Gen Spec SpecX.
From JV Require Import Hand.Text Hand.Lexopt Hand.Json Hand.Cli.
From JV.Proofs Require Import SpecFacts Inner Cal Reform Core Canon Total AtJdn SuccPred SpecStep Boundary LexoptProofs CliProofs JsonProofs.
Import List ListNotations.
Open Scope Z_scope.
Ltac Zify.zify_post_hook ::= Z.to_euclidean_division_equations.

(* every calendar the command can construct is one of the calendars of the core development *)
Lemma reachable_valid k : reachable_cal k -> exists c, ValidCal c /\ k = cal_of c.
Proof.
  intros [->|[->|(r & Hr & E)]].
  - exists CG. split; [exact I|reflexivity].
  - exists CJ. split; [exact I|reflexivity].
  - rewrite reforming_ok in E by assumption. unfold reforming_spec in E.
    destruct (Z.ltb_spec r 1830692); [discriminate|]. destruct (Z.ltb_spec 2147439588 r); [discriminate|].
    inversion E. exists (CR r). split; [cbn; unfold ValidR; lia|reflexivity].
Qed.

Theorem lib_total : LibTotal.
Proof.
  unfold LibTotal, no_panic. split; [|split; [|split]].
  - intros r Hr. eexists. apply reforming_ok. exact Hr.
  - intros k j R Hj. destruct (reachable_valid k R) as (c & V & ->). eexists. apply at_jdn_ok; assumption.
  - intros k y m d R Hy Hd. destruct (reachable_valid k R) as (c & V & ->). eexists. apply AtYmd.at_ymd_ok; assumption.
  - intros k y o R Hy Ho. destruct (reachable_valid k R) as (c & V & ->). eexists. apply AtYmd.at_ordinal_date_ok; assumption.
Qed.

(* the fields of a canonical date *)
Lemma canonical_date_ok c d : ValidCal c -> Canonical d -> Date_f_calendar d = cal_of c -> date_ok (cal_of c) d.
Proof.
  intros V (c' & j & V' & H & ->) Ec. destruct (date_of_fields c' j) as (Fc & _ & Fo & _ & _ & Fd & _).
  unfold date_ok. rewrite Fo, Fd. split; [exact Ec|].
  destruct (ordinal_closed c' j V') as [B O]. pose proof (lbl_valid c' j) as [_ LD]. lia.
Qed.

Lemma arg_date_ok o a d : reachable_cal (o_calendar o) -> arg_date o a = Ret (Ok d) -> date_ok (o_calendar o) d.
Proof.
  intros R E. destruct (reachable_valid _ R) as (c & V & Ec). rewrite Ec in *. unfold arg_date, parse_arg in E. rewrite Ec in E.
  destruct (has_inner_dash a).
  - destruct (canonical_parse c a V) as (r & P & Cr). rewrite P in E. cbn [bind] in E.
    destruct r as [x|e]; cbn [bind] in E; [|discriminate]. inversion E; subst x. destruct (Cr d eq_refl) as [C Fc].
    apply canonical_date_ok; assumption.
  - destruct (parse_i32 a) as [j|e] eqn:PI; cbn [bind] in E; [|discriminate].
    assert (Hj : in_i32 j) by (apply (parse_i32_ok a j PI)).
    rewrite at_jdn_ok in E by assumption. cbn [bind] in E. inversion E; subst d.
    apply canonical_date_ok; [exact V|exists c, j; auto|]. destruct (date_of_fields c j) as (Fc & _). exact Fc.
Qed.

Lemma now_date_ok o now d : reachable_cal (o_calendar o) -> now_date o now = Ret d -> date_ok (o_calendar o) d.
Proof.
  intros R E. destruct (reachable_valid _ R) as (c & V & Ec). rewrite Ec in *. unfold now_date, calendar_now in E. rewrite Ec in E.
  destruct ((i64_min <=? now) && (now <=? i64_max)) eqn:In; cbn [bind] in E; [|discriminate].
  assert (Hn : in_i64 now) by (unfold in_i64; lia).
  rewrite at_unix_time_ok in E by assumption. cbn [bind] in E.
  destruct (in_i32b (now / 86400 + 2440588)) eqn:I32; [|discriminate]. inversion E; subst d. apply in_i32b_iff in I32.
  apply canonical_date_ok; [exact V|exists c, (now / 86400 + 2440588); auto|]. destruct (date_of_fields c (now / 86400 + 2440588)) as (Fc & _). exact Fc.
Qed.

Lemma run_dates_ok o now args ds : reachable_cal (o_calendar o) -> run_dates o now args ds -> Forall (date_ok (o_calendar o)) ds.
Proof.
  intros R. unfold run_dates. destruct args as [|a args].
  - intros (d & E & ->). constructor; [eapply now_date_ok; eassumption|constructor].
  - intros F. induction F as [|x d xs ds' Hx _ IH]; constructor; [eapply arg_date_ok; eassumption|exact IH].
Qed.

(* ---------------------------------------------------------------- the closed statements *)
Theorem cli_main_total_closed alpha version now argv : now_in_range now -> exists out, cli_main alpha version now argv = Ret out.
Proof. intros H. exact (cli_main_total alpha version now argv lib_total H). Qed.

Theorem options_run_json_closed o now args ds :
  reachable_cal (o_calendar o) -> o_json o = true -> run_dates o now args ds ->
  exists lines, options_run o now args = Ret (Ok lines) /\ List.length lines = S (List.length ds) /\
                json_text (stdout_of lines) (jdoc (o_calendar o) ds).
Proof. intros R Hj RD. exact (options_run_json o now args ds Hj RD (run_dates_ok o now args ds R RD)). Qed.

(* the round trip of C18 with [canonical_date] discharged: every day number, every calendar the command can build *)
Lemma canonical_date_of c j : ValidCal c -> in_i32 j -> canonical_date (cal_of c) j (date_of c j).
Proof.
  intros V H. destruct (Core.roundtrip c j V H) as (d & E & Ej & Ey & Eo). rewrite at_jdn_ok in E by assumption. inversion E; subst d.
  destruct (date_of_fields c j) as (_ & Fy & Fo & _ & _ & Fd & _).
  pose proof (lbl_valid c j) as [_ LD]. destruct (ordinal_closed c j V) as [B O]. pose proof (AtYmd.year_count_le c (l_year (lbl c j))) as [YC _].
  unfold canonical_date. split; [exact Ej|]. split; [rewrite Fy; apply year_i32; exact H|].
  split; [rewrite Fd; unfold in_u32, u32_max; lia|]. split; [rewrite Fo; unfold in_u32, u32_max; lia|]. split; assumption.
Qed.

Theorem roundtrip_text_closed o j : reachable_cal (o_calendar o) -> o_json o = false -> in_i32 j ->
  exists d t, Calendar_at_jdn (o_calendar o) j = Ret d /\ date_text o d = Ret t /\
    arg_line o (show_int j) = Ret (Ok (jdn_prefix o j ++ t ++ style_mark o d)) /\
    arg_line o t = Ret (Ok (if o_quiet o then show_int j else t ++ style_mark o d ++ codes " = JDN " ++ show_int j)).
Proof.
  intros R Hj H. destruct (reachable_valid _ R) as (c & V & Ec).
  destruct (TextProofs.roundtrip) as (_ & _ & Sh). destruct (Sh (date_of c j)) as (t1 & t2 & S1 & S2).
  assert (A : Calendar_at_jdn (o_calendar o) j = Ret (date_of c j)) by (rewrite Ec; apply at_jdn_ok; assumption).
  assert (T : exists t, date_text o (date_of c j) = Ret t) by (unfold date_text; destruct (o_ordinal o); eauto).
  destruct T as (t & T). exists (date_of c j), t. split; [exact A|]. split; [exact T|].
  apply roundtrip_text; try assumption. rewrite Ec. apply canonical_date_of; assumption.
Qed.
