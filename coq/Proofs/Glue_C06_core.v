(* Glue_C06_core.v — proofs of the statements of Properties/C06_core.v that need a few steps beyond a library lemma
   (rephrasing only: no induction, no case analysis of the model).  The scripts were moved out of the property file so
   that it contains nothing but statements closed by [exact]. *)
From JV Require Import Sem Gen Spec SpecX.
From JV.Hand Require Import Names Text Order Iter Sys Interop.
From JV.Proofs Require Import SpecFacts Cal Core CoreOrder Canon AtJdn InteropProofs IterCore Canon2.
Import ListNotations.
Open Scope Z_scope.

Lemma C06_canonical_meaning_lemma : forall d, Canonical d ->
  WfCal (Date_f_calendar d) /\ in_i32 (Date_f_jdn d) /\ Calendar_at_jdn (Date_f_calendar d) (Date_f_jdn d) = Ret d.
Proof.
  intros d (c & j & V & H & ->). destruct (SuccPred.date_of_fields c j) as (Fc & _ & _ & Fj & _). rewrite Fc, Fj.
  split; [exists c; auto|]. split; [exact H|apply at_jdn_ok; assumption].
Qed.

Lemma C06_producers_canonical_lemma : forall c, ValidCal c ->
  (forall j, in_i32 j -> exists d, Calendar_at_jdn (cal_of c) j = Ret d /\ Canonical d) /\
  (forall y m d, in_i32 y -> in_u32 d -> exists r, Calendar_at_ymd (cal_of c) y m d = Ret r /\ forall x, r = Ok x -> Canonical x /\ Date_f_calendar x = cal_of c) /\
  (forall y o, in_i32 y -> in_u32 o -> exists r, Calendar_at_ordinal_date (cal_of c) y o = Ret r /\ forall x, r = Ok x -> Canonical x /\ Date_f_calendar x = cal_of c) /\
  (forall t, in_i64 t -> exists r, Calendar_at_unix_time (cal_of c) t = Ret r /\ forall x s, r = Ok (x, s) -> Canonical x) /\
  (exists a b, Calendar_last_julian_date (cal_of c) = Ret a /\ Calendar_first_gregorian_date (cal_of c) = Ret b /\
     (forall x, a = Some x -> Canonical x) /\ (forall x, b = Some x -> Canonical x)) /\
  (forall y m k s, in_i32 y -> in_u32 k -> Calendar_month_shape (cal_of c) y m = Ret (Some s) ->
     exists r, MonthShape_nth_date s k = Ret r /\ forall x, r = Some x -> Canonical x /\ Date_f_calendar x = cal_of c) /\
  (forall s, exists r, parse_date (cal_of c) s = Ret r /\ forall x, r = Ok x -> Canonical x /\ Date_f_calendar x = cal_of c).
Proof.
  intros c V. split; [intros; apply canonical_at_jdn; assumption|]. split; [intros; apply canonical_at_ymd; assumption|].
  split; [intros; apply canonical_at_ordinal_date; assumption|]. split; [intros; apply canonical_at_unix_time; assumption|].
  split; [apply canonical_boundary; exact V|]. split; [intros y m k s Hy Hk E; exact (canonical_nth_date c y m k V Hy Hk s E)|intros; apply canonical_parse; exact V].
Qed.

Lemma C06_steps_preserve_lemma : forall d, Canonical d ->
  (exists a b, Date_succ d = Ret a /\ Date_pred d = Ret b /\
     (forall x, a = Some x -> Canonical x /\ Date_f_calendar x = Date_f_calendar d /\ Date_f_jdn x = Date_f_jdn d + 1) /\
     (forall x, b = Some x -> Canonical x /\ Date_f_calendar x = Date_f_calendar d /\ Date_f_jdn x = Date_f_jdn d - 1)) /\
  (forall c', ValidCal c' -> exists x, Date_convert_to d (cal_of c') = Ret x /\ Canonical x /\ Date_f_jdn x = Date_f_jdn d /\ Date_f_calendar x = cal_of c') /\
  (exists t1 t2, show_date d = Ret t1 /\ show_date_alt d = Ret t2 /\
     parse_date (Date_f_calendar d) t1 = Ret (Ok d) /\ parse_date (Date_f_calendar d) t2 = Ret (Ok d)).
Proof.
  intros d C. split; [apply canonical_succ_pred; exact C|]. split; [intros c' V'; apply canonical_convert; assumption|apply canonical_reparse; exact C].
Qed.

Lemma C06_eq_iff_jdn_lemma : forall c j j', ValidCal c -> in_i32 j -> in_i32 j' -> (date_of c j = date_of c j' <-> j = j').
Proof.
  intros c j j' V H H'. split; [intros E|intros ->; reflexivity].
  apply (f_equal Date_f_jdn) in E. destruct (SuccPred.date_of_fields c j) as (_ & _ & _ & Fj & _). destruct (SuccPred.date_of_fields c j') as (_ & _ & _ & Fj' & _). congruence.
Qed.

Lemma C06_other_producers_lemma : forall c, ValidCal c ->
  (forall before secs nanos, 0 <= secs -> 0 <= nanos < nanos_per_sec ->
     exists r, at_system_time_model (cal_of c) before secs nanos = Ret r /\ forall x s, r = Ok (x, s) -> Canonical x) /\
  (forall ymin ymax f, RangeOk ymin ymax -> f_valid ymin ymax f = true ->
     exists d, from_foreign f = Ret d /\ Canonical d /\ Date_f_calendar d = cal_of CG) /\
  (forall j x, day_or_none c j = Some x -> Canonical x /\ Date_f_jdn x = j /\ Date_f_calendar x = cal_of c) /\
  (forall y m, 0 < month_count c y (Month_discr m) -> Forall (fun x => Canonical x /\ Date_f_calendar x = cal_of c) (dates_list c y m)).
Proof.
  intros c V. split; [intros; apply canonical_at_system_time; assumption|]. split; [intros; eapply canonical_from_foreign; eassumption|].
  split; [intros j x; apply canonical_day_or_none; exact V|intros y m; apply canonical_dates_list; exact V].
Qed.

