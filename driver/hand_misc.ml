(* ops answered by coq/Hand/Cli.v (+ Lexopt.v, Json.v), extracted:
     cli <version-hex> <now> <argc> <hex arg>...   ->   exit=<0|1>;stdout=<hex>
   <version-hex>, <hex arg> = 'x' followed by the hex bytes (util.ml); <now> = the current Julian day number,
   or 'u' followed by the Unix time in seconds; argv WITHOUT the program name.  A model Panic surfaces as the
   driver's PANIC line.  Trusted for the correspondence only: argument decoding and printing. *)
module ZA = Z
type ostring = string
open Jv
open Util

let bytes_of (s : ostring) : z list = List.init (String.length s) (fun i -> zi (Char.code s.[i]))

(* code points -> UTF-8 (the model's output is proved ASCII; encode anyway) *)
let utf8_of (cps : z list) : ostring =
  let buf = Buffer.create 64 in
  List.iter (fun c ->
      let c = ZA.to_int (zarith_of_z c) in
      if c < 0x80 then Buffer.add_char buf (Char.chr c)
      else if c < 0x800 then (Buffer.add_char buf (Char.chr (0xC0 lor (c lsr 6)));
                              Buffer.add_char buf (Char.chr (0x80 lor (c land 0x3F))))
      else if c < 0x10000 then (Buffer.add_char buf (Char.chr (0xE0 lor (c lsr 12)));
                                Buffer.add_char buf (Char.chr (0x80 lor ((c lsr 6) land 0x3F)));
                                Buffer.add_char buf (Char.chr (0x80 lor (c land 0x3F))))
      else (Buffer.add_char buf (Char.chr (0xF0 lor (c lsr 18)));
            Buffer.add_char buf (Char.chr (0x80 lor ((c lsr 12) land 0x3F)));
            Buffer.add_char buf (Char.chr (0x80 lor ((c lsr 6) land 0x3F)));
            Buffer.add_char buf (Char.chr (0x80 lor (c land 0x3F))))) cps;
  Buffer.contents buf

let now_of (t : ostring) : z =
  if String.length t > 1 && t.[0] = 'u' then i64 (String.sub t 1 (String.length t - 1))
  else
    let j = zarith_of_z (i32 t) in
    z_of_zarith (ZA.mul (ZA.sub j (ZA.of_int 2440588)) (ZA.of_int 86400))

let eval (toks : ostring list) : ostring =
  match toks with
  | "cli" :: version :: now :: argc :: args ->
    let n = (try int_of_string argc with _ -> raise Bad_case) in
    if n <> List.length args then raise Bad_case;
    (* the version text is ASCII: bytes = code points *)
    let version = bytes_of (unhex version) in
    let argv = List.map (fun a -> bytes_of (unhex a)) args in
    (match run (cli_main_exec version (now_of now) argv) with
     | Exit0 lines -> "exit=0;stdout=" ^ hex_of (utf8_of (stdout_of lines))
     | ExitErr -> "exit=1;stdout=" ^ hex_of "")
  | _ -> raise Unsupported
