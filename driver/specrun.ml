(* ops answered by the executable specification (coq/Spec.v, coq/SpecX.v): the oracle used both to state
   what the properties demand on a concrete input and to search for a failing input *)
module ZA = Z
type ostring = string
open Jv
open Util

let ccal_of (t : ostring) : cal =
  match t with
  | "J" -> CJ
  | "G" -> CG
  | "X" -> CR (zi 2299161)
  | _ ->
    if String.length t < 2 || t.[0] <> 'R' then raise Bad_case;
    let r = i32 (String.sub t 1 (String.length t - 1)) in
    let v = zarith_of_z r in
    if ZA.lt v (ZA.of_int 1830692) || ZA.gt v (ZA.of_int 2147439588) then raise Bad_cal;
    CR r

let zz = zarith_of_z
let in_i32z (v : z) = in_range "-2147483648" "2147483647" (zz v)

let spec_shape_s (c : cal) (y : z) (m : month) : ostring =
  match month_shape_spec c y m with
  | None -> "None"
  | Some ms ->
    let s = ms.monthShape_f_inner in
    let gap = match sh_gap s with None -> "None" | Some (a, b) -> zs a ^ "..=" ^ zs b in
    let kind = match s with
      | Inner_MonthShape_Normal _ -> "Normal" | Inner_MonthShape_Headless _ -> "Headless"
      | Inner_MonthShape_Tailless _ -> "Tailless" | Inner_MonthShape_Gapped _ -> "Gapped" in
    Printf.sprintf "Some(%s;len=%s;first=%s;last=%s;gap=%s;kind=%s;year=%s;month=%s;cal=%s)" (shape_s s)
      (zs (sh_len s)) (zs (sh_first s)) (zs (sh_last s)) gap kind (zs y) (month_num m) (cal_s (Jv.cal_of c))

let eval (toks : ostring list) : ostring =
  match toks with
  | ["reforming"; r] ->
    let v = zz (i32 r) in
    if ZA.lt v (ZA.of_int 1830692) then "Err InvalidReformation"
    else if ZA.gt v (ZA.of_int 2147439588) then "Err Arithmetic"
    else "Ok " ^ cal_s (Jv.cal_of (CR (i32 r)))
  | ["at_jdn"; c; j] -> let c = ccal_of c in date_s (date_of c (i32 j))
  | ["at_ymd"; c; y; m; d] -> let c = ccal_of c in res_date (at_ymd_spec c (i32 y) (month_of_int m) (u32 d))
  | ["at_ordinal_date"; c; y; o] -> let c = ccal_of c in res_date (at_ordinal_date_spec c (i32 y) (u32 o))
  | ["year_kind"; c; y] ->
    let c = ccal_of c in
    let k = ykind_gen (year_kind_of c (i32 y)) in
    let (((a, b), cc), d) = ykind_flags k in
    Printf.sprintf "%s;is_leap=%s;is_common=%s;is_reform=%s;is_skipped=%s" (ykind_s k) (bool_s a) (bool_s b) (bool_s cc) (bool_s d)
  | ["year_length"; c; y] -> let c = ccal_of c in zs (year_count c (i32 y))
  | ["month_shape"; c; y; m] -> let c = ccal_of c in spec_shape_s c (i32 y) (month_of_int m)
  | ["shape_q"; c; y; m; d] ->
    let c = ccal_of c in
    let y = i32 y in let m = month_of_int m in let d = u32 d in
    (match month_shape_spec c y m with
     | None -> "None"
     | Some ms ->
       let s = ms.monthShape_f_inner in
       let len = zz (sh_len s) in
       let nth = if ZA.leq ZA.one (zz d) && ZA.leq (zz d) len then Some (sh_nth s d) else None in
       let nth_date = match nth with
         | None -> None
         | Some day -> (match at_ymd_spec c y m day with Ok dt -> Some dt | Err _ -> None) in
       Printf.sprintf "contains=%s;day_ordinal=%s;nth_day=%s;nth_date=%s" (bool_s (sh_in s d))
         (opt zs (if sh_in s d then Some (sh_ord s d) else None)) (opt zs nth) (opt date_s nth_date))
  | ["succ"; c; j] ->
    let c = ccal_of c in
    let j1 = z_of_zarith (ZA.succ (zz (i32 j))) in
    if in_i32z j1 then "Some(" ^ date_s (date_of c j1) ^ ")" else "None"
  | ["pred"; c; j] ->
    let c = ccal_of c in
    let j1 = z_of_zarith (ZA.pred (zz (i32 j))) in
    if in_i32z j1 then "Some(" ^ date_s (date_of c j1) ^ ")" else "None"
  | ["boundary"; c] ->
    (match ccal_of c with
     | CR r -> Printf.sprintf "last=Some(%s);first=Some(%s)" (date_s (date_of (CR r) (z_of_zarith (ZA.pred (zz r))))) (date_s (date_of (CR r) r))
     | _ -> "last=None;first=None")
  | ["observers"; c] ->
    (match ccal_of c with
     | CR r -> Printf.sprintf "reformation=Some(%s);is_reforming=true;is_proleptic=false" (zs r)
     | _ -> "reformation=None;is_reforming=false;is_proleptic=true")
  | ["unix2jdn"; t] ->
    let t = zz (i64 t) in
    let d = ZA.fdiv t (ZA.of_int 86400) in let s = ZA.sub t (ZA.mul d (ZA.of_int 86400)) in
    let j = ZA.add d (ZA.of_int 2440588) in
    if in_range "-2147483648" "2147483647" j then Printf.sprintf "Ok(%s,%s)" (ZA.to_string j) (ZA.to_string s) else "Err"
  | ["jdn2unix"; j] -> ZA.to_string (ZA.mul (ZA.sub (zz (i32 j)) (ZA.of_int 2440588)) (ZA.of_int 86400))
  | ["at_unix_time"; c; t] ->
    let c = ccal_of c in
    let t = zz (i64 t) in
    let d = ZA.fdiv t (ZA.of_int 86400) in let s = ZA.sub t (ZA.mul d (ZA.of_int 86400)) in
    let j = ZA.add d (ZA.of_int 2440588) in
    if in_range "-2147483648" "2147483647" j then Printf.sprintf "Ok(%s,%s)" (date_s (date_of c (z_of_zarith j))) (ZA.to_string s) else "Err"
  | ["weekday"; j] ->
    let j = zz (i32 j) in
    let m = ZA.sub j (ZA.mul (ZA.fdiv j (ZA.of_int 7)) (ZA.of_int 7)) in ZA.to_string (ZA.succ m)
  | ["convert"; c1; j; c2] -> let _ = ccal_of c1 in let c2 = ccal_of c2 in date_s (date_of c2 (i32 j))
  | ["date_q"; c; j] ->
    (* observers of the date of day j; the two renderings go through the hand model of Display (Hand/Text.v)
       applied to the SPECIFICATION's date, so nothing here is regenerated from the code *)
    let c = ccal_of c in
    let j = i32 j in
    let d = date_of c j in
    let jz = zz j in
    let wd = ZA.succ (ZA.sub jz (ZA.mul (ZA.fdiv jz (ZA.of_int 7)) (ZA.of_int 7))) in
    let old = is_old c j in
    Printf.sprintf "weekday=%s;is_julian=%s;is_gregorian=%s;ordinal0=%s;day_ordinal0=%s;show=%s;showalt=%s"
      (ZA.to_string wd) (bool_s old) (bool_s (not old))
      (ZA.to_string (ZA.pred (zz (ordinal_of c j)))) (ZA.to_string (ZA.pred (zz (day_ordinal_of c j))))
      (Hand_text.hex_codes (run (show_date d))) (Hand_text.hex_codes (run (show_date_alt d)))
  | ["month_q"; n] | ["weekday_q"; n] ->
    let names = if List.hd toks = "month_q" then month_names_spec else weekday_names_spec in
    (match enum_q_spec names (u32 n) with
     | None -> raise Bad_case
     | Some (((((a, b), num), num0), p), s) ->
       let a = string_of_coq a and b = string_of_coq b in
       Printf.sprintf "name=%s;short=%s;display=%s;alt=%s;number=%s;number0=%s;pred=%s;succ=%s"
         (hex_of a) (hex_of b) (hex_of a) (hex_of b) (zs num) (zs num0) (opt zs p) (opt zs s))
  | _ -> raise Unsupported
