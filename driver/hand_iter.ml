module ZA = Z
type ostring = string
open Jv
open Util

let eval (toks : ostring list) : ostring = ignore toks; raise Unsupported
