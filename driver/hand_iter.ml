(* ops answered by coq/Hand/Iter.v, Order.v, Sys.v (extracted): days dates months later earlier and_later
   and_earlier cal_cmp date_cmp system2jdn at_system_time history.
   Trusted for the correspondence only: argument decoding and printing.  Everything that computes is extracted. *)
module ZA = Z
type ostring = string
open Jv
open Util

let join = String.concat ";"

(* "." = no ops; otherwise a non-empty string over f b l *)
let iter_ops (t : ostring) : itop list =
  if t = "." then [] else begin
    if t = "" then raise Bad_case;
    List.init (String.length t) (fun i ->
      match t.[i] with 'f' -> OpNext | 'b' -> OpNextBack | 'l' -> OpLen | _ -> raise Bad_case)
  end

let out_s (item : 'a -> ostring) (o : 'a itout) : ostring =
  match o with
  | OutFront None | OutBack None -> "-"
  | OutFront (Some x) | OutBack (Some x) -> item x
  | OutLen n -> zs n

let dash_date = function None -> "-" | Some d -> date_s d

let rec nat_of_int (n : int) : nat = if n <= 0 then O else S (nat_of_int (n - 1))

let cmp_s = function Lt -> "Less" | Eq -> "Equal" | Gt -> "Greater"

let cmp_line c e heq pc =
  Printf.sprintf "%s;eq=%s;hasheq=%s;pcmp=%s" (cmp_s c) (bool_s e) (bool_s heq)
    (match pc with Some c -> cmp_s c | None -> raise Model_panic)

let before_of (s : ostring) : bool =
  let v = u32 s in
  match zs v with "0" -> false | "1" -> true | _ -> raise Bad_case

(* the harness prints UNREP when std cannot build the SystemTime; Sys.sys_time_repr mirrors that rule and
   normalises nanos >= 10^9 into the seconds like Duration::new *)
let sys_args before secs nanos =
  let b = before_of before in
  let s = u64 secs in
  let n = u32 nanos in
  (b, sys_time_repr b s n)

type hop = HS | HP | HC of calendar | HN of z | HY | HR | HL | HE | HA | HT | HO | HH | HM | HUnsup

let parse_hop (tok : ostring) : hop =
  match tok with
  | "s" -> HS | "p" -> HP | "y" -> HY | "r" -> HR | "L" -> HL | "E" -> HE | "A" -> HA
  | "t" -> HT | "o" -> HO | "h" -> HH | "m" -> HM
  | _ ->
    let n = String.length tok in
    if n >= 2 && String.sub tok 0 2 = "c:" then HC (cal_of (String.sub tok 2 (n - 2)))
    else if n >= 2 && String.sub tok 0 2 = "n:" then HN (u32 (String.sub tok 2 (n - 2)))
    else raise Bad_case

let apply_hop (d : date) (h : hop) : date option =
  match h with
  | HS -> run (date_succ d)
  | HP -> run (date_pred d)
  | HC c -> Some (run (date_convert_to d c))
  | HN k ->
    (match run (calendar_month_shape d.date_f_calendar d.date_f_year d.date_f_month) with
     | None -> raise Model_panic (* .unwrap() *)
     | Some sh -> run (monthShape_nth_date sh k))
  | HY -> (match run (calendar_at_ymd d.date_f_calendar d.date_f_year d.date_f_month d.date_f_day) with Ok x -> Some x | Err _ -> None)
  | HR -> (match run (calendar_at_ordinal_date d.date_f_calendar d.date_f_year d.date_f_ordinal) with Ok x -> Some x | Err _ -> None)
  | HL -> fst (run (later_next (run (date_later d))))
  | HE -> fst (run (earlier_next (run (date_earlier d))))
  | HA -> fst (run (and_later_next (run (date_and_later d))))
  | HT -> (match run (parse_date d.date_f_calendar (run (show_date d))) with Ok x -> Some x | Err _ -> None)
  | HO -> (match run (parse_date d.date_f_calendar (run (show_date_alt d))) with Ok x -> Some x | Err _ -> None)
  | HH -> run (via_foreign chrono_ymin chrono_ymax false d)
  | HM -> run (via_foreign time_ymin time_ymax true d)
  | HUnsup -> raise Unsupported

let eval (toks : ostring list) : ostring =
  match toks with
  | [("days" | "dates") as op; c; y; m; ops] ->
    let c = cal_of c in
    let y = i32 y in
    let m = month_of_int m in
    let ops = iter_ops ops in
    (match run (calendar_month_shape c y m) with
     | None -> "None"
     | Some sh ->
       if op = "days" then join (List.map (out_s zs) (run (days_run ops sh)))
       else join (List.map (out_s date_s) (run (dates_run ops sh))))
  | ["months"; ops] ->
    let ops = iter_ops ops in
    join (List.map (out_s month_num) (run (months_run ops)))
  | [("later" | "earlier" | "and_later" | "and_earlier") as op; c; j; n] ->
    let c = cal_of c in
    let j = i32 j in
    let n = u32 n in
    let n = ZA.to_int (zarith_of_z n) in
    if n > 100000 then raise Unsupported;
    let d = run (calendar_at_jdn c j) in
    let k = nat_of_int n in
    let items = match op with
      | "later" -> run (later_take k d)
      | "earlier" -> run (earlier_take k d)
      | "and_later" -> run (and_later_take k d)
      | _ -> run (and_earlier_take k d) in
    join (List.map dash_date items)
  | ["cal_cmp"; c1; c2] ->
    let c1 = cal_of c1 in
    let c2 = cal_of c2 in
    cmp_line (cal_cmp c1 c2) (cal_eq c1 c2) (hstream_eqb (cal_hash c1) (cal_hash c2)) (cal_partial_cmp c1 c2)
  | ["date_cmp"; c1; j1; c2; j2] ->
    let c1 = cal_of c1 in
    let j1 = i32 j1 in
    let c2 = cal_of c2 in
    let j2 = i32 j2 in
    let d1 = run (calendar_at_jdn c1 j1) in
    let d2 = run (calendar_at_jdn c2 j2) in
    cmp_line (date_cmp d1 d2) (date_eq d1 d2) (hstream_eqb (date_hash d1) (date_hash d2)) (date_partial_cmp d1 d2)
  | ["system2jdn"; before; secs; nanos] ->
    (match sys_args before secs nanos with
     | (_, None) -> "UNREP"
     | (b, Some (s, n)) ->
       (match run (system2jdn_model b s n) with
        | Ok (j, sc) -> Printf.sprintf "Ok(%s,%s)" (zs j) (zs sc)
        | Err _ -> "Err"))
  | ["at_system_time"; c; before; secs; nanos] ->
    let c = cal_of c in
    (match sys_args before secs nanos with
     | (_, None) -> "UNREP"
     | (b, Some (s, n)) ->
       (match run (at_system_time_model c b s n) with
        | Ok (d, sc) -> Printf.sprintf "Ok(%s,%s)" (date_s d) (zs sc)
        | Err _ -> "Err"))
  | "history" :: c :: j :: ops ->
    let c = cal_of c in
    let j = i32 j in
    let ops = List.map parse_hop ops in
    if List.mem HUnsup ops then raise Unsupported;
    let d = ref (run (calendar_at_jdn c j)) in
    join (List.map (fun h ->
      let r = apply_hop !d h in
      (match r with Some nd -> d := nd | None -> ());
      dash_date r) ops)
  | ["foreign_enums"] -> "ok"
  | _ -> raise Unsupported
