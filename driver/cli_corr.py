#!/usr/bin/env python3
"""Correspondence check between the real `julian` binary and the extracted Coq model of the command
(coq/Hand/Cli.v, Lexopt.v, Json.v; driver op `cli`, driver/hand_misc.ml).

usage: cli_corr.py SEED [N] [--bin PATH] [--driver PATH] [--build] [--jobs K] [--show M]

  SEED      all randomness comes from this one integer
  N         number of random cases per stream (default 4000); the fixed systematic cases are always added
  --bin     the real binary   (default /verif/build/cli-target/debug/julian)
  --driver  the model driver  (default /verif/build/jdriver)
  --build   first run: cd /repo && CARGO_TARGET_DIR=/verif/build/cli-target cargo build --offline -p julian-cli

For every argv (bytes, no shell) the real binary and the model are compared on
  * exit status: 0 versus non-zero (101 = panic is counted separately and is always a disagreement),
  * the exact bytes of standard output,
  * standard error: empty iff the status is 0.
The model receives the current Julian day number; the clock is read before and after the real run and the run
is repeated when the day changed.  For -J output of structured cases the document is parsed with the `json`
module and compared with text-mode runs (-s and -o) of the same calendar options and arguments.
Prints `CLI-CORR cases=<n> disagreements=<k> panics=<p>`; exit status 0 iff k = 0 and p = 0."""
import json, os, random, re, subprocess, sys, time
from concurrent.futures import ThreadPoolExecutor

BIN = "/verif/build/cli-target/debug/julian"
DRIVER = "/verif/build/jdriver"
CARGO_TOML = "/repo/crates/julian-cli/Cargo.toml"

def today_jdn():
    return int(time.time() // 86400) + 2440588

def pkg_version():
    in_pkg = False
    for line in open(CARGO_TOML):
        line = line.strip()
        if line.startswith("["):
            in_pkg = line == "[package]"
        m = re.match(r'version\s*=\s*"([^"]*)"', line)
        if in_pkg and m:
            return m.group(1)
    raise SystemExit("no version in " + CARGO_TOML)

def hx(b):
    return "x" + b.hex()

# ------------------------------------------------------------------------------------------------ generation
# A structured case is a list of items; an item is (kind, payload):
#   ("flag", letter, long?)   one of j J o q s as its own token
#   ("cluster", letters)      -abc made of flag letters
#   ("refo", style, value)    the reformation option, value bytes
#   ("pos", bytes)            a positional-looking token
#   ("info", bytes)           -h -V -c and long forms
#   ("dd",)                   --
#   ("raw", bytes)            anything else (no derived text-mode variant)
LONG = {"j": b"--julian", "J": b"--json", "o": b"--ordinal", "q": b"--quiet", "s": b"--style"}
FLAG_LETTERS = "jJoqs"

REFO_VALUES = [b"2299161", b"2361222", b"gb", b"GB", b"Gb", b"us", b"ru", b"se", b"SI", b"tr", b"2342032",
               b"1830692", b"1830691", b"1830693", b"2147439588", b"2147439589", b"2147483647", b"2147483648",
               b"0", b"1", b"-1", b"-2299161", b"+2299161", b"002299161", b"", b"g", b"gbr", b"xx", b"Italy", b"uk",
               b"g1", b"1g", b"2299161 ", b" 2299161", b"\xc3\xa9", b"g\xc3\xa9", b"\xce\xb1\xce\xb2", b"\xff", b"gb\xff",
               b"\xd9\xa1\xd9\xa2", b"99999999999", b"-99999999999", b"2299161x", b"-", b"--", b"-j", b"2400000", b"2000000",
               b"2342397", b"2299664", b"1830693", b"2305448"]
INTS = [b"0", b"1", b"-1", b"2460055", b"2299160", b"2299161", b"2361221", b"2361222", b"-2147483648", b"2147483647",
        b"2147483648", b"-2147483649", b"+5", b"-0", b"007", b"-007", b"1721426", b"1721425", b"-5", b"-123", b"5x", b"-5x",
        b"-123x", b" 5", b"5 ", b"", b"-", b"+", b"0x10", b"1e3", b"1.5", b"\xef\xbc\x91\xef\xbc\x92", b"\xd9\xa1", b"12\xff",
        b"-5\xff", b"\xff", b"\xc3\x28", b"\xc0\xaf", b"\xe2\x82", b"\xed\xa0\x80", b"\xf4\x90\x80\x80", b"abc", b"-5=3", b"-5=",
        b"-=5", b"1234567890123", b"-2147483647", b"2147483646", b"-1931076", b"-1930999"]
DATES = [b"2023-04-20", b"2023-110", b"1582-10-04", b"1582-10-05", b"1582-10-10", b"1582-10-14", b"1582-10-15", b"1752-09-02",
         b"1752-09-03", b"1752-09-13", b"1752-09-14", b"1752-246", b"1752-355", b"1752-356", b"2000-02-29", b"1900-02-29",
         b"2023-02-29", b"2023-13-01", b"2023-00-01", b"2023-01-00", b"2023-01-32", b"2023-366", b"2024-366", b"2023-000",
         b"0000-01-01", b"-0001-12-31", b"-4712-01-01", b"-4713-11-24", b"+2023-04-20", b"2023-4-5", b"2023-04-20x",
         b"2023--04", b"2023-04-", b"2023-", b"2023-04-20-", b"2023-04-2\xc3\xa9", b"2023-\xff", b"99999999999-01-01",
         b"2023-99999999999", b"2023-01-99999999999", b"5874898-06-03", b"5874898-06-04", b"-5884323-05-15",
         b"-5884323-05-14", b"2147483647-01-01", b"-2147483648-01-01", b"1-1-1", b"1-1", b"-1-1", b"a-b", b"1 -2", b"2023-04-20 ",
         b"1700-02-29", b"1700-03-01", b"1918-02-01", b"1918-02-13", b"1918-02-14", b"1919-03-04", b"1919-03-18", b"1712-02-30"]
INFOS = [b"-h", b"-V", b"-c", b"--help", b"--version", b"--countries"]
RAWS = [b"-x", b"--foo", b"--foo=bar", b"-\xc3\xa9", b"-\xff", b"--\xff", b"--json\xff", b"-=", b"-j=", b"-j=x", b"--julian=x",
        b"--json=", b"--help=x", b"--version=", b"--countries=1", b"-qh", b"-hq", b"-5h", b"-h5", b"-jV", b"-q5", b"-q12", b"-5q",
        b"-r", b"--reformation", b"-jr", b"-J5", b"-oJ", b"--JSON", b"--jso", b"--json ", b"---", b"--=", b"--=x", b"-5-5", b"-1-2-3",
        b"-0044-03-15", b"-0044-075", b"-q-5", b"-s=", b"-rgb", b"-r=gb", b"-r=", b"-jrgb", b"-jr=2299161", b"-r2299161", b"-R",
        b"-j\xff", b"-5\xe2\x82", b"-\xe2\x82\xac", b"-j\xe2\x82\xac", b"-\xf0\x9f\x98\x80", b"-9\xf0\x9f\x98\x80", b"-\x01"]

def gen_pos(rng):
    k = rng.random()
    if k < 0.30:
        return rng.choice(INTS)
    if k < 0.60:
        return rng.choice(DATES)
    if k < 0.75:
        return str(rng.randint(-3000000, 3000000)).encode()
    if k < 0.82:
        return str(rng.randint(-2**31 - 5, 2**31 + 5)).encode()
    y = rng.choice([rng.randint(-5000, 5000), rng.randint(1500, 2100), rng.randint(1580, 1590), rng.randint(1750, 1755)])
    ys = ("-%04d" % -y) if y < 0 else ("%04d" % y)
    if k < 0.93:
        return ("%s-%02d-%02d" % (ys, rng.randint(0, 13), rng.randint(0, 32))).encode()
    return ("%s-%03d" % (ys, rng.randint(0, 367))).encode()

def gen_refo(rng):
    style = rng.choice(["-r V", "-r V", "-rV", "-r=V", "--reformation V", "--reformation=V"])
    k = rng.random()
    if k < 0.6:
        v = rng.choice(REFO_VALUES)
    elif k < 0.85:
        v = str(rng.randint(1830000, 2500000)).encode()
    else:
        v = bytes(rng.choice(b"abcdefghijklmnopqrstuvwxyzABCDEFGHIJKLMNOPQRSTUVWXYZ") for _ in range(2))
    return ("refo", style, v)

def gen_item(rng):
    k = rng.random()
    if k < 0.40:
        return ("pos", gen_pos(rng))
    if k < 0.62:
        l = rng.choice(FLAG_LETTERS)
        return ("flag", l, rng.random() < 0.35)
    if k < 0.70:
        return ("cluster", "".join(rng.choice(FLAG_LETTERS) for _ in range(rng.randint(2, 4))))
    if k < 0.84:
        return gen_refo(rng)
    if k < 0.88:
        return ("info", rng.choice(INFOS))
    if k < 0.91:
        return ("dd",)
    return ("raw", rng.choice(RAWS))

def render(items):
    argv = []
    for it in items:
        if it[0] == "flag":
            argv.append(LONG[it[1]] if it[2] else b"-" + it[1].encode())
        elif it[0] == "cluster":
            argv.append(b"-" + it[1].encode())
        elif it[0] == "refo":
            style, v = it[1], it[2]
            if style == "-r V":
                argv += [b"-r", v]
            elif style == "-rV":
                argv.append(b"-r" + v)
            elif style == "-r=V":
                argv.append(b"-r=" + v)
            elif style == "--reformation V":
                argv += [b"--reformation", v]
            else:
                argv.append(b"--reformation=" + v)
        elif it[0] == "dd":
            argv.append(b"--")
        else:
            argv.append(it[1])
    return argv

def text_variant(items, extra):
    """same calendar options and positionals, formatting flags replaced by [extra]; None if not derivable"""
    out = [("flag", e, False) for e in extra]
    for it in items:
        if it[0] in ("raw", "info"):
            return None
        if it[0] == "flag":
            if it[1] == "j":
                out.append(it)
        elif it[0] == "cluster":
            js = "".join(c for c in it[1] if c == "j")
            if js:
                out.append(("cluster", js) if len(js) > 1 else ("flag", "j", False))
        else:
            out.append(it)
    return out

def systematic_cases():
    """every documented option in every position of a few fixed argument lists, -J with 0,1,2,3,4 arguments, ..."""
    cases = []
    base_lists = [[], [b"2460055"], [b"2023-04-20", b"-123"], [b"1582-10-04", b"2299161", b"1752-09-14"],
                  [b"1", b"2", b"3", b"2023-110"], [b"\xff"], [b"bad"], [b"2023-13-01", b"5"]]
    opts = [[("flag", l, lg)] for l in FLAG_LETTERS for lg in (False, True)]
    opts += [[("refo", st, v)] for st in ["-r V", "-rV", "-r=V", "--reformation V", "--reformation=V"]
             for v in (b"gb", b"2299161", b"", b"zz", b"0")]
    opts += [[("info", i)] for i in INFOS] + [[("dd",)], [("raw", b"-x")], [("raw", b"--foo=1")]]
    for bl in base_lists:
        poss = [("pos", b) for b in bl]
        for o in opts:
            for i in range(len(poss) + 1):
                cases.append(poss[:i] + o + poss[i:])
    cals = [[], [("flag", "j", False)], [("refo", "-r V", b"gb")], [("refo", "--reformation=V", b"2299161")], [("refo", "-rV", b"ru")]]
    argl = [b"2460055", b"1582-10-04", b"2299161", b"1752-09-14", b"-1", b"1700-060", b"1918-01-31"]
    for c in cals:
        for n in range(0, 6):
            for fl in ([], [("flag", "s", False)], [("flag", "o", False)], [("flag", "q", False)], [("cluster", "sq")], [("cluster", "oq")]):
                cases.append([("flag", "J", False)] + c + fl + [("pos", a) for a in argl[:n]])
                cases.append(c + fl + [("pos", a) for a in argl[:n]] + [("flag", "J", True)])
                cases.append(c + fl + [("pos", a) for a in argl[:n]])
    return cases

def gen_structured(rng):
    n = rng.choice([0, 1, 1, 2, 2, 3, 3, 4, 5, 6])
    items = [gen_item(rng) for _ in range(n)]
    if rng.random() < 0.25:
        items.insert(rng.randint(0, len(items)), ("flag", "J", rng.random() < 0.3))
    return items

def gen_bytes(rng):
    n = rng.choice([0, 1, 1, 2, 2, 3, 4, 5])
    argv = []
    for _ in range(n):
        mode = rng.random()
        ln = rng.choice([0, 1, 1, 2, 2, 3, 3, 4, 5, 6, 8, 12])
        if mode < 0.5:
            argv.append(bytes(rng.randint(1, 255) for _ in range(ln)))          # uniform bytes (no NUL: not an argv byte)
        elif mode < 0.8:
            alpha = b"--==0123456789rjJoqshVcx \xc3\xa9\xff\xe2\x82\xac+"
            argv.append(bytes(rng.choice(alpha) for _ in range(ln)))
        else:
            alpha = b"-0123456789"
            argv.append(bytes(rng.choice(alpha) for _ in range(ln)))
    return argv

# ------------------------------------------------------------------------------------------------ running
def run_real(binp, argv):
    """returns (status, stdout, stderr, jdn): jdn = day on which the run happened (same before and after)"""
    for _ in range(5):
        j0 = today_jdn()
        p = subprocess.run([binp.encode()] + argv, stdin=subprocess.DEVNULL, stdout=subprocess.PIPE, stderr=subprocess.PIPE,
                           env={"PATH": "/usr/bin:/bin", "RUST_BACKTRACE": "0"})
        if today_jdn() == j0:
            return (p.returncode, p.stdout, p.stderr, j0)
    raise SystemExit("clock keeps changing day")

def run_model(driver, version, reqs):
    """reqs: list of (jdn, argv) -> list of result strings"""
    lines = []
    for jdn, argv in reqs:
        lines.append(" ".join(["cli", hx(version.encode()), str(jdn), str(len(argv))] + [hx(a) for a in argv]))
    p = subprocess.run([driver, "gen"], input=("\n".join(lines) + "\n").encode(), stdout=subprocess.PIPE, stderr=subprocess.PIPE)
    out = p.stdout.decode().split("\n")
    if out and out[-1] == "":
        out.pop()
    if p.returncode != 0 or len(out) != len(reqs):
        raise SystemExit("driver failed: rc=%d lines=%d/%d %s" % (p.returncode, len(out), len(reqs), p.stderr[:300]))
    return out

LINE_RE1 = re.compile(r"^(-?\d+-\d\d-\d\d)( O\.S\.| N\.S\.)? = JDN (-?\d+)$")
LINE_RE2 = re.compile(r"^JDN (-?\d+) = (-?\d+-\d\d-\d\d)( O\.S\.| N\.S\.)?$")
OLINE_RE1 = re.compile(r"^(-?\d+-\d\d\d) = JDN (-?\d+)$")
OLINE_RE2 = re.compile(r"^JDN (-?\d+) = (-?\d+-\d\d\d)$")

def check_json(doc_bytes, s_out, o_out, nargs):
    """compare the JSON document with the -s and -o text runs; returns an error string or None"""
    try:
        doc = json.loads(doc_bytes.decode("utf-8"))
    except Exception as e:
        return "not JSON: %s" % e
    if not isinstance(doc, dict) or list(doc.keys()) != ["calendar", "dates"]:
        return "top-level keys"
    cal, dates = doc["calendar"], doc["dates"]
    sl = s_out.decode().split("\n")[:-1]
    ol = o_out.decode().split("\n")[:-1]
    if not (len(sl) == len(ol) == len(dates) == max(nargs, 1)):
        return "number of dates %d vs text lines %d/%d vs args %d" % (len(dates), len(sl), len(ol), nargs)
    if not isinstance(cal, dict) or cal.get("type") not in ("julian", "gregorian", "reforming"):
        return "calendar type"
    reforming = cal["type"] == "reforming"
    if reforming != ("reformation" in cal) or set(cal.keys()) - {"type", "reformation"}:
        return "calendar keys"
    if reforming and type(cal["reformation"]) is not int:
        return "reformation type"
    for d, s, o in zip(dates, sl, ol):
        m = LINE_RE1.match(s)
        if m:
            disp, mark, jdn = m.group(1), m.group(2), int(m.group(3))
        else:
            m = LINE_RE2.match(s)
            if not m:
                return "text line %r" % s
            jdn, disp, mark = int(m.group(1)), m.group(2), m.group(3)
        m = OLINE_RE1.match(o)
        if m:
            odisp, ojdn = m.group(1), int(m.group(2))
        else:
            m = OLINE_RE2.match(o)
            if not m:
                return "ordinal text line %r" % o
            ojdn, odisp = int(m.group(1)), m.group(2)
        keys = ["julian_day_number", "year", "month", "day", "ordinal", "display", "ordinal_display"]
        if reforming:
            keys.append("old_style")
        if not isinstance(d, dict):
            return "dates element is not an object: %r" % (d,)
        if list(d.keys()) != keys:
            return "date keys %r" % list(d.keys())
        ym = re.match(r"^(-?\d+)-(\d\d)-(\d\d)$", disp)
        om = re.match(r"^(-?\d+)-(\d\d\d)$", odisp)
        exp = {"julian_day_number": jdn, "year": int(ym.group(1)), "month": int(ym.group(2)), "day": int(ym.group(3)),
               "ordinal": int(om.group(2)), "display": disp, "ordinal_display": odisp}
        if jdn != ojdn or int(om.group(1)) != exp["year"]:
            return "text runs disagree %r %r" % (s, o)
        for k, v in exp.items():
            if d[k] != v or type(d[k]) is not type(v):
                return "field %s: %r vs %r" % (k, d[k], v)
        if (mark is not None) != reforming:
            return "style mark %r vs reforming %r" % (mark, reforming)
        if reforming:
            if d["old_style"] is not (mark == " O.S."):
                return "old_style %r vs %r" % (d["old_style"], mark)
            if (jdn < cal["reformation"]) != d["old_style"]:
                return "old_style vs reformation"
    return None

def main():
    args = sys.argv[1:]
    binp, driver, build, jobs, show = BIN, DRIVER, False, 8, 10
    posn = []
    i = 0
    while i < len(args):
        a = args[i]
        if a == "--bin":
            binp = args[i + 1]; i += 2
        elif a == "--driver":
            driver = args[i + 1]; i += 2
        elif a == "--jobs":
            jobs = int(args[i + 1]); i += 2
        elif a == "--show":
            show = int(args[i + 1]); i += 2
        elif a == "--build":
            build = True; i += 1
        else:
            posn.append(a); i += 1
    if not posn:
        raise SystemExit(__doc__)
    seed = int(posn[0])
    n = int(posn[1]) if len(posn) > 1 else 4000
    if build:
        env = dict(os.environ, CARGO_TARGET_DIR="/verif/build/cli-target", CARGO_NET_OFFLINE="true")
        r = subprocess.run(["cargo", "build", "--offline", "-p", "julian-cli"], cwd="/repo", env=env)
        if r.returncode != 0:
            raise SystemExit("cargo build failed")
    version = pkg_version()
    rng = random.Random(seed)

    # ---- cases: (argv, json_info) ; json_info = (s_argv, o_argv, nargs) or None
    cases = []
    structured = systematic_cases() + [gen_structured(rng) for _ in range(n)]
    for items in structured:
        argv = render(items)
        info = None
        sv, ov = text_variant(items, "s"), text_variant(items, "o")
        if sv is not None:
            npos = None if any(it[0] == "dd" for it in items) else sum(1 for it in items if it[0] == "pos")
            info = (render(sv), render(ov), npos)
        cases.append((argv, info))
    for _ in range(n):
        cases.append((gen_bytes(rng), None))

    # ---- real runs (the text variants are themselves cases)
    all_argv = []
    index = {}
    def add(argv):
        key = tuple(argv)
        if key not in index:
            index[key] = len(all_argv)
            all_argv.append(argv)
        return index[key]
    case_ix = []
    for argv, info in cases:
        a = add(argv)
        if info is not None:
            case_ix.append((a, add(info[0]), add(info[1]), info[2]))
        else:
            case_ix.append((a, None, None, None))
    with ThreadPoolExecutor(max_workers=jobs) as ex:
        real = list(ex.map(lambda av: run_real(binp, av), all_argv))
    model = run_model(driver, version, [(real[k][3], all_argv[k]) for k in range(len(all_argv))])

    if model and all(m == "UNSUPPORTED" for m in model):
        raise SystemExit("the driver %s does not know the `cli` op: rebuild it (coq/Extract.v -> jv.ml, driver/build.sh)" % driver)
    disagreements, panics, json_checked = [], 0, 0
    for k, argv in enumerate(all_argv):
        rc, out, err, jdn = real[k]
        problems = []
        if rc == 101 or rc < 0:
            panics += 1
            problems.append("real binary aborted (status %d): %r" % (rc, err[:200]))
        exp = "exit=%d;stdout=%s" % (0 if rc == 0 else 1, hx(out))
        if model[k] != exp:
            problems.append("model %s\n      real  %s" % (model[k][:400], exp[:400]))
        if model[k] == "PANIC":
            panics += 1
        if (rc == 0) != (err == b""):
            problems.append("status %d but stderr %r" % (rc, err[:100]))
        if rc != 0 and out != b"":
            problems.append("status %d but stdout not empty" % rc)
        if problems:
            disagreements.append((argv, problems))
    for a, s, o, npos in case_ix:
        rc, out, err, jdn = real[a]
        if s is None or rc != 0 or not out.startswith(b"{\n"):
            continue
        if real[s][0] != 0 or real[o][0] != 0:
            disagreements.append((all_argv[a], ["JSON run succeeds but text run fails: %r" % (all_argv[s],)]))
            continue
        if npos is None:
            npos = len(real[s][1].split(b"\n")) - 1
            if real[s][3] != jdn or real[o][3] != jdn:
                continue
        if npos == 0 and (real[s][3] != jdn or real[o][3] != jdn):
            continue
        json_checked += 1
        try:
            e = check_json(out, real[s][1], real[o][1], npos)
        except Exception as ex:
            e = 'JSON document has an unexpected structure (%s: %s)' % (type(ex).__name__, ex)
        if e:
            disagreements.append((all_argv[a], ["JSON check: " + e]))

    print("CLI-CORR cases=%d disagreements=%d panics=%d" % (len(all_argv), len(disagreements), panics))
    ok = sum(1 for r in real if r[0] == 0)
    print("  seed=%d structured=%d bytes=%d exit0=%d exit_nonzero=%d json_documents_checked=%d version=%s"
          % (seed, len(structured), n, ok, len(real) - ok, json_checked, version))
    for argv, problems in disagreements[:show]:
        print("  argv=%r" % (argv,))
        for p in problems:
            print("      " + p)
    sys.exit(0 if not disagreements and panics == 0 else 1)

if __name__ == "__main__":
    main()
