(* ops answered by the hand-written Coq models (coq/Hand/*.v); each hand_*.ml raises Util.Unsupported
   for ops it does not know *)
module ZA = Z
type ostring = string
open Util

let eval (toks : ostring list) : ostring =
  try Hand_text.eval toks with Unsupported ->
  try Hand_iter.eval toks with Unsupported ->
  Hand_misc.eval toks
