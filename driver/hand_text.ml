(* Model side of the text / name ops (coq/Hand/Text.v, coq/Hand/Names.v):
   date_q parse month_from_str weekday_from_str month_try_from weekday_try_from month_q weekday_q.
   Trusted for the correspondence only: token reading in the same order as harness/src/eval.rs (so that
   BADCAL / BADCASE / BADARG come out alike), strict UTF-8 <-> code point conversion, printing. *)
module ZA = Z
type ostring = string
open Jv
open Util

(* ---------------------------------------------------------------- token reader (mirrors eval.rs `Toks`) *)
type toks = { mutable rest : ostring list }
let tok t = match t.rest with [] -> raise Bad_case | x :: r -> t.rest <- r; x
let fin t = if t.rest <> [] then raise Bad_case
(* Rust `tok.parse::<u32>()` after the harness' digit check: "-0" is rejected for unsigned types *)
let tok_u32 t = let s = tok t in if String.length s > 0 && s.[0] = '-' then raise Bad_case else u32 s

(* ---------------------------------------------------------------- UTF-8 (strict, as String::from_utf8) *)
let decode_utf8 (s : ostring) : z list =
  let n = String.length s in
  let b i = if i >= n then raise Bad_case else Char.code s.[i] in
  let cont lo hi i = let c = b i in if c < lo || c > hi then raise Bad_case else c land 0x3f in
  let rec go i acc =
    if i >= n then List.rev acc else
    let c = b i in
    if c < 0x80 then go (i + 1) (zi c :: acc)
    else if c >= 0xc2 && c <= 0xdf then
      let c1 = cont 0x80 0xbf (i + 1) in go (i + 2) (zi (((c land 0x1f) lsl 6) lor c1) :: acc)
    else if c >= 0xe0 && c <= 0xef then begin
      let lo, hi = if c = 0xe0 then 0xa0, 0xbf else if c = 0xed then 0x80, 0x9f else 0x80, 0xbf in
      let c1 = cont lo hi (i + 1) in
      let c2 = cont 0x80 0xbf (i + 2) in
      go (i + 3) (zi (((c land 0x0f) lsl 12) lor (c1 lsl 6) lor c2) :: acc) end
    else if c >= 0xf0 && c <= 0xf4 then begin
      let lo, hi = if c = 0xf0 then 0x90, 0xbf else if c = 0xf4 then 0x80, 0x8f else 0x80, 0xbf in
      let c1 = cont lo hi (i + 1) in
      let c2 = cont 0x80 0xbf (i + 2) in
      let c3 = cont 0x80 0xbf (i + 3) in
      go (i + 4) (zi (((c land 0x07) lsl 18) lor (c1 lsl 12) lor (c2 lsl 6) lor c3) :: acc) end
    else raise Bad_case in
  go 0 []

let encode_utf8 (l : z list) : ostring =
  let buf = Buffer.create 16 in
  List.iter (fun c ->
    let c = ZA.to_int (zarith_of_z c) in
    let add x = Buffer.add_char buf (Char.chr x) in
    if c < 0x80 then add c
    else if c < 0x800 then (add (0xc0 lor (c lsr 6)); add (0x80 lor (c land 0x3f)))
    else if c < 0x10000 then (add (0xe0 lor (c lsr 12)); add (0x80 lor ((c lsr 6) land 0x3f)); add (0x80 lor (c land 0x3f)))
    else (add (0xf0 lor (c lsr 18)); add (0x80 lor ((c lsr 12) land 0x3f)); add (0x80 lor ((c lsr 6) land 0x3f));
          add (0x80 lor (c land 0x3f)))) l;
  Buffer.contents buf

let str_arg (t : ostring) : z list = decode_utf8 (unhex t)
let hex_codes (l : z list) : ostring = hex_of (encode_utf8 l)
let uplus (c : z) : ostring = Printf.sprintf "U+%04X" (ZA.to_int (zarith_of_z c))

(* ---------------------------------------------------------------- printers *)
let iek_s = function
  | IEK_Empty -> "Empty" | IEK_InvalidDigit -> "InvalidDigit" | IEK_PosOverflow -> "PosOverflow" | IEK_NegOverflow -> "NegOverflow"

let perr_s = function
  | PDE_InvalidDate e -> "InvalidDate(" ^ derr_s e ^ ")"
  | PDE_InvalidMonth v -> "InvalidMonth(" ^ zs v ^ ")"
  | PDE_Trailing -> "Trailing"
  | PDE_InvalidIntStart c -> "InvalidIntStart(" ^ uplus c ^ ")"
  | PDE_InvalidUIntStart c -> "InvalidUIntStart(" ^ uplus c ^ ")"
  | PDE_EmptyInt -> "EmptyInt"
  | PDE_UnexpectedChar (e, g) -> "UnexpectedChar(" ^ uplus e ^ "," ^ uplus g ^ ")"
  | PDE_UnexpectedEnd e -> "UnexpectedEnd(" ^ uplus e ^ ")"
  | PDE_ParseInt k -> "ParseInt(" ^ iek_s k ^ ")"

let ity_of = function
  | "i8" -> Ty_i8 | "i16" -> Ty_i16 | "i32" -> Ty_i32 | "i64" -> Ty_i64 | "i128" -> Ty_i128 | "isize" -> Ty_isize
  | "u8" -> Ty_u8 | "u16" -> Ty_u16 | "u32" -> Ty_u32 | "u64" -> Ty_u64 | "u128" -> Ty_u128 | "usize" -> Ty_usize
  | _ -> raise Bad_case

let weekday_of_z (n : z) : weekday =
  match ZA.to_int (zarith_of_z n) with
  | 1 -> Weekday_Monday | 2 -> Weekday_Tuesday | 3 -> Weekday_Wednesday | 4 -> Weekday_Thursday
  | 5 -> Weekday_Friday | 6 -> Weekday_Saturday | 7 -> Weekday_Sunday | _ -> raise Bad_case

let name_q name short display alt number number0 pred succ =
  Printf.sprintf "name=%s;short=%s;display=%s;alt=%s;number=%s;number0=%s;pred=%s;succ=%s"
    (hex_of (string_of_coq name)) (hex_of (string_of_coq short)) (hex_codes display) (hex_codes alt)
    (zs number) (zs number0) (opt zs pred) (opt zs succ)

let omap f = function None -> None | Some x -> Some (f x)

(* ---------------------------------------------------------------- ops *)
let eval (toks : ostring list) : ostring =
  match toks with
  | "date_q" :: rest ->
    let t = { rest } in
    let c = cal_of (tok t) in
    let j = i32 (tok t) in
    fin t;
    let d = run (calendar_at_jdn c j) in
    Printf.sprintf "weekday=%s;is_julian=%s;is_gregorian=%s;ordinal0=%s;day_ordinal0=%s;show=%s;showalt=%s"
      (zs (run (weekday_number (run (date_weekday d))))) (bool_s (run (date_is_julian d))) (bool_s (run (date_is_gregorian d)))
      (zs (run (date_ordinal0 d))) (zs (run (date_day_ordinal0 d)))
      (hex_codes (run (show_date d))) (hex_codes (run (show_date_alt d)))
  | "parse" :: rest ->
    let t = { rest } in
    let c = cal_of (tok t) in
    let s = str_arg (tok t) in
    fin t;
    (match run (parse_date c s) with
     | Ok d -> "Ok " ^ date_s d
     | Err e -> "Err " ^ perr_s e)
  | "month_from_str" :: rest ->
    let t = { rest } in
    let s = str_arg (tok t) in
    fin t;
    (match month_from_str s with Some m -> "Ok " ^ zs (run (month_number m)) | None -> "Err")
  | "weekday_from_str" :: rest ->
    let t = { rest } in
    let s = str_arg (tok t) in
    fin t;
    (match weekday_from_str s with Some w -> "Ok " ^ zs (run (weekday_number w)) | None -> "Err")
  | (("month_try_from" | "weekday_try_from") as op) :: rest ->
    let t = { rest } in
    let ty = tok t in
    let v = parse_int (tok t) in
    (* parse_big: a well-formed decimal beyond 128 bits is BADARG (before the end-of-line check) *)
    if ZA.sign v < 0 && ZA.lt v (ZA.neg (ZA.shift_left ZA.one 127)) then "BADARG"
    else if ZA.sign v >= 0 && ZA.geq v (ZA.shift_left ZA.one 128) then "BADARG"
    else begin
      fin t;
      let ty = ity_of ty in
      let vz = z_of_zarith v in
      if not (ZA.leq (zarith_of_z (ity_lo ty)) v && ZA.leq v (zarith_of_z (ity_hi ty))) then "BADARG"
      else if op = "month_try_from" then
        (match month_try_from_ty ty vz with Some m -> "Ok " ^ zs (run (month_number m)) | None -> "Err")
      else
        (match run (weekday_try_from_ty ty vz) with Some w -> "Ok " ^ zs (run (weekday_number w)) | None -> "Err")
    end
  | "month_q" :: rest ->
    let t = { rest } in
    let n = tok_u32 t in
    let m = month_of_int (zs n) in
    fin t;
    name_q (run (month_name m)) (run (month_short_name m)) (run (month_display false m)) (run (month_display true m))
      (run (month_number m)) (run (month_number0 m))
      (omap (fun x -> run (month_number x)) (run (month_pred m))) (omap (fun x -> run (month_number x)) (run (month_succ m)))
  | "weekday_q" :: rest ->
    let t = { rest } in
    let n = tok_u32 t in
    fin t;
    let w = weekday_of_z n in
    name_q (run (weekday_name w)) (run (weekday_short_name w)) (run (weekday_display false w)) (run (weekday_display true w))
      (run (weekday_number w)) (run (weekday_number0 w))
      (omap (fun x -> run (weekday_number x)) (run (weekday_pred w))) (omap (fun x -> run (weekday_number x)) (run (weekday_succ w)))
  | _ -> raise Unsupported
