#!/bin/sh
# build the model-side driver from the extracted jv.ml; usage: build.sh <dir containing jv.ml> <output binary>
set -e
D="$1"; OUT="$2"
HERE="$(cd "$(dirname "$0")" && pwd)"
cp "$HERE"/util.ml "$HERE"/hand_text.ml "$HERE"/hand_iter.ml "$HERE"/hand_misc.ml "$HERE"/hand.ml "$HERE"/specrun.ml "$HERE"/main.ml "$D"/
cd "$D"
ocamlfind ocamlopt -O2 -w -a -package zarith -linkpkg jv.mli jv.ml util.ml hand_text.ml hand_iter.ml hand_misc.ml hand.ml specrun.ml main.ml -o "$OUT" 2>/dev/null || \
ocamlfind ocamlopt -w -a -package zarith -linkpkg jv.mli jv.ml util.ml hand_text.ml hand_iter.ml hand_misc.ml hand.ml specrun.ml main.ml -o "$OUT"
