(* Model side of the correspondence protocol (see harness/PROTOCOL.md).
   Reads case lines on stdin; prints one result line per case, computed with the code
   extracted from coq/Gen.v and the hand models (mode "gen"), or with the executable spec (mode "spec").
   Trusted for the correspondence only: argument decoding and printing. *)
module ZA = Z
type ostring = string
open Jv
open Util

let eval_gen (toks : ostring list) : ostring =
  match toks with
  | ["reforming"; r] ->
    (match run (calendar_reforming (i32 r)) with
     | Ok c -> "Ok " ^ cal_s c
     | Err ReformingError_InvalidReformation -> "Err InvalidReformation"
     | Err ReformingError_Arithmetic -> "Err Arithmetic")
  | ["at_jdn"; c; j] -> let c = cal_of c in date_s (run (calendar_at_jdn c (i32 j)))
  | ["at_ymd"; c; y; m; d] -> let c = cal_of c in res_date (run (calendar_at_ymd c (i32 y) (month_of_int m) (u32 d)))
  | ["at_ordinal_date"; c; y; o] -> let c = cal_of c in res_date (run (calendar_at_ordinal_date c (i32 y) (u32 o)))
  | ["year_kind"; c; y] ->
    let c = cal_of c in
    let k = run (calendar_year_kind c (i32 y)) in
    Printf.sprintf "%s;is_leap=%s;is_common=%s;is_reform=%s;is_skipped=%s" (ykind_s k) (bool_s (run (yearKind_is_leap k)))
      (bool_s (run (yearKind_is_common k))) (bool_s (run (yearKind_is_reform k))) (bool_s (run (yearKind_is_skipped k)))
  | ["year_length"; c; y] -> let c = cal_of c in zs (run (calendar_year_length c (i32 y)))
  | ["month_shape"; c; y; m] ->
    let c = cal_of c in
    (match run (calendar_month_shape c (i32 y) (month_of_int m)) with
     | None -> "None"
     | Some s ->
       let gap = match run (monthShape_gap s) with None -> "None" | Some r -> zs r.ri_start ^ "..=" ^ zs r.ri_end in
       Printf.sprintf "Some(%s;len=%s;first=%s;last=%s;gap=%s;kind=%s;year=%s;month=%s;cal=%s)" (shape_s s.monthShape_f_inner)
         (zs (run (monthShape_len s))) (zs (run (monthShape_first_day s))) (zs (run (monthShape_last_day s))) gap
         (mkind_s (run (monthShape_kind s))) (zs (run (monthShape_year s))) (month_num (run (monthShape_month s)))
         (cal_s (run (monthShape_calendar s))))
  | ["shape_q"; c; y; m; d] ->
    let c = cal_of c in
    let d = u32 d in
    (match run (calendar_month_shape c (i32 y) (month_of_int m)) with
     | None -> "None"
     | Some s ->
       Printf.sprintf "contains=%s;day_ordinal=%s;nth_day=%s;nth_date=%s" (bool_s (run (monthShape_contains s d)))
         (opt zs (run (monthShape_day_ordinal s d))) (opt zs (run (monthShape_nth_day s d))) (opt date_s (run (monthShape_nth_date s d))))
  | ["succ"; c; j] -> let c = cal_of c in opt date_s (run (date_succ (run (calendar_at_jdn c (i32 j)))))
  | ["pred"; c; j] -> let c = cal_of c in opt date_s (run (date_pred (run (calendar_at_jdn c (i32 j)))))
  | ["boundary"; c] ->
    let c = cal_of c in
    Printf.sprintf "last=%s;first=%s" (opt date_s (run (calendar_last_julian_date c))) (opt date_s (run (calendar_first_gregorian_date c)))
  | ["observers"; c] ->
    let c = cal_of c in
    Printf.sprintf "reformation=%s;is_reforming=%s;is_proleptic=%s" (opt zs (run (calendar_reformation c)))
      (bool_s (run (calendar_is_reforming c))) (bool_s (run (calendar_is_proleptic c)))
  | ["unix2jdn"; t] -> (match run (unix2jdn (i64 t)) with Ok (j, s) -> Printf.sprintf "Ok(%s,%s)" (zs j) (zs s) | Err _ -> "Err")
  | ["jdn2unix"; j] -> zs (run (jdn2unix (i32 j)))
  | ["at_unix_time"; c; t] ->
    let c = cal_of c in
    (match run (calendar_at_unix_time c (i64 t)) with Ok (d, s) -> Printf.sprintf "Ok(%s,%s)" (date_s d) (zs s) | Err _ -> "Err")
  | ["weekday"; j] -> zs (run (weekday_number (run (weekday_for_jdn (i32 j)))))
  | ["convert"; c1; j; c2] ->
    let c1 = cal_of c1 in let c2 = cal_of c2 in
    date_s (run (date_convert_to (run (calendar_at_jdn c1 (i32 j))) c2))
  | _ -> Hand.eval toks

let () =
  let mode = if Array.length Sys.argv > 1 then Sys.argv.(1) else "gen" in
  let out = Buffer.create 65536 in
  (try
     while true do
       let line = input_line stdin in
       let toks = String.split_on_char ' ' line in
       let res =
         try (match mode with "gen" -> eval_gen toks | "spec" -> Specrun.eval toks | _ -> failwith "mode")
         with
         | Model_panic -> "PANIC"
         | Bad_case -> "BADCASE"
         | Bad_cal -> "BADCAL"
         | Unsupported -> "UNSUPPORTED"
       in
       Buffer.add_string out res; Buffer.add_char out '\n';
       if Buffer.length out > 60000 then (print_string (Buffer.contents out); Buffer.clear out)
     done
   with End_of_file -> ());
  print_string (Buffer.contents out)
