(* Shared helpers of the model-side driver: integer/string conversion, printers, calendar tokens. *)
module ZA = Z
type ostring = string
open Jv

exception Bad_case
exception Unsupported

(* ---------------------------------------------------------------- integers *)
let rec pos_of_zarith (n : ZA.t) : positive =
  if ZA.equal n ZA.one then XH
  else if ZA.equal (ZA.logand n ZA.one) ZA.one then XI (pos_of_zarith (ZA.shift_right n 1))
  else XO (pos_of_zarith (ZA.shift_right n 1))

let z_of_zarith (n : ZA.t) : z =
  if ZA.sign n = 0 then Z0 else if ZA.sign n > 0 then Zpos (pos_of_zarith n) else Zneg (pos_of_zarith (ZA.neg n))

let rec zarith_of_pos = function
  | XH -> ZA.one
  | XO p -> ZA.shift_left (zarith_of_pos p) 1
  | XI p -> ZA.succ (ZA.shift_left (zarith_of_pos p) 1)

let zarith_of_z = function Z0 -> ZA.zero | Zpos p -> zarith_of_pos p | Zneg p -> ZA.neg (zarith_of_pos p)
let zs (x : z) : ostring = ZA.to_string (zarith_of_z x)
let zi (i : int) : z = z_of_zarith (ZA.of_int i)

let parse_int (s : ostring) : ZA.t =
  let n = String.length s in
  if n = 0 then raise Bad_case;
  let start = if s.[0] = '-' then 1 else 0 in
  if start = n then raise Bad_case;
  for i = start to n - 1 do
    if s.[i] < '0' || s.[i] > '9' then raise Bad_case
  done;
  ZA.of_string s

let in_range lo hi (v : ZA.t) = ZA.leq (ZA.of_string lo) v && ZA.leq v (ZA.of_string hi)
let i32 s = let v = parse_int s in if in_range "-2147483648" "2147483647" v then z_of_zarith v else raise Bad_case
let u32 s = let v = parse_int s in if in_range "0" "4294967295" v then z_of_zarith v else raise Bad_case
let i64 s = let v = parse_int s in if in_range "-9223372036854775808" "9223372036854775807" v then z_of_zarith v else raise Bad_case
let u64 s = let v = parse_int s in if in_range "0" "18446744073709551615" v then z_of_zarith v else raise Bad_case

(* ---------------------------------------------------------------- strings *)
let coq_string_of (s : ostring) : Jv.string =
  let rec go i = if i >= String.length s then EmptyString else
    let c = Char.code s.[i] in
    let b k = (c lsr k) land 1 = 1 in
    String (Ascii (b 0, b 1, b 2, b 3, b 4, b 5, b 6, b 7), go (i + 1)) in
  go 0

let string_of_coq (s : Jv.string) : ostring =
  let buf = Buffer.create 16 in
  let rec go = function
    | EmptyString -> ()
    | String (Ascii (b0, b1, b2, b3, b4, b5, b6, b7), r) ->
      let v b k = if b then 1 lsl k else 0 in
      Buffer.add_char buf (Char.chr (v b0 0 + v b1 1 + v b2 2 + v b3 3 + v b4 4 + v b5 5 + v b6 6 + v b7 7));
      go r in
  go s; Buffer.contents buf

let hex_of (s : ostring) : ostring =
  let buf = Buffer.create (1 + 2 * String.length s) in
  Buffer.add_char buf 'x';
  String.iter (fun c -> Buffer.add_string buf (Printf.sprintf "%02x" (Char.code c))) s;
  Buffer.contents buf

let unhex (t : ostring) : ostring =
  let n = String.length t in
  if n = 0 || t.[0] <> 'x' || (n - 1) mod 2 <> 0 then raise Bad_case;
  let d c = match c with '0'..'9' -> Char.code c - 48 | 'a'..'f' -> Char.code c - 87 | _ -> raise Bad_case in
  String.init ((n - 1) / 2) (fun i -> Char.chr (16 * d t.[1 + 2 * i] + d t.[2 + 2 * i]))

(* ---------------------------------------------------------------- monad *)
exception Model_panic
let run (m : 'a m) : 'a = match m with Ret a -> a | Panic -> raise Model_panic

(* ---------------------------------------------------------------- printers *)
let month_num (m : month) : ostring = zs (month_discr m)
let month_of_int (s : ostring) : month =
  match s with
  | "1" -> Month_January | "2" -> Month_February | "3" -> Month_March | "4" -> Month_April
  | "5" -> Month_May | "6" -> Month_June | "7" -> Month_July | "8" -> Month_August
  | "9" -> Month_September | "10" -> Month_October | "11" -> Month_November | "12" -> Month_December
  | _ -> raise Bad_case

let kind_s = function
  | Inner_GapKind_IntraMonth -> "IntraMonth" | Inner_GapKind_CrossMonth -> "CrossMonth"
  | Inner_GapKind_CrossYear -> "CrossYear" | Inner_GapKind_MultiYear -> "MultiYear"

let idate_s (d : inner_Date) =
  Printf.sprintf "%s,%s,%s,%s" (zs d.inner_Date_f_year) (zs d.inner_Date_f_ordinal) (month_num d.inner_Date_f_month) (zs d.inner_Date_f_day)

let cal_s (c : calendar) : ostring =
  match c with
  | Inner_Calendar_Julian -> "J"
  | Inner_Calendar_Gregorian -> "G"
  | Inner_Calendar_Reforming (r, g) ->
    Printf.sprintf "R%s{%s;%s;%s;%s;%s}" (zs r) (idate_s g.inner_ReformGap_f_pre_reform) (idate_s g.inner_ReformGap_f_post_reform)
      (kind_s g.inner_ReformGap_f_kind) (zs g.inner_ReformGap_f_ordinal_gap_start) (zs g.inner_ReformGap_f_ordinal_gap)

let date_s (d : date) : ostring =
  Printf.sprintf "D[%s](%s,%s,%s,%s,%s,%s)" (cal_s d.date_f_calendar) (zs d.date_f_year) (zs d.date_f_ordinal)
    (month_num d.date_f_month) (zs d.date_f_day) (zs d.date_f_day_ordinal) (zs d.date_f_jdn)

let derr_s = function
  | DateError_Arithmetic -> "Arithmetic"
  | DateError_DayOutOfRange (y, m, d, lo, hi) -> Printf.sprintf "DayOutOfRange(%s,%s,%s,%s,%s)" (zs y) (month_num m) (zs d) (zs lo) (zs hi)
  | DateError_OrdinalOutOfRange (y, o, mx) -> Printf.sprintf "OrdinalOutOfRange(%s,%s,%s)" (zs y) (zs o) (zs mx)
  | DateError_SkippedDate (y, m, d) -> Printf.sprintf "SkippedDate(%s,%s,%s)" (zs y) (month_num m) (zs d)

let shape_s = function
  | Inner_MonthShape_Normal mx -> Printf.sprintf "Normal(%s)" (zs mx)
  | Inner_MonthShape_Headless (mn, mx) -> Printf.sprintf "Headless(%s,%s)" (zs mn) (zs mx)
  | Inner_MonthShape_Tailless (mx, nat) -> Printf.sprintf "Tailless(%s,%s)" (zs mx) (zs nat)
  | Inner_MonthShape_Gapped (a, b, mx) -> Printf.sprintf "Gapped(%s,%s,%s)" (zs a) (zs b) (zs mx)

let opt f = function None -> "None" | Some x -> "Some(" ^ f x ^ ")"
let bool_s b = if b then "true" else "false"
let res_date = function Ok d -> "Ok " ^ date_s d | Err e -> "Err " ^ derr_s e
let ykind_s = function
  | YearKind_Common -> "Common" | YearKind_Leap -> "Leap" | YearKind_ReformCommon -> "ReformCommon"
  | YearKind_ReformLeap -> "ReformLeap" | YearKind_Skipped -> "Skipped"
let mkind_s = function
  | MonthKind_Normal -> "Normal" | MonthKind_Headless -> "Headless" | MonthKind_Tailless -> "Tailless" | MonthKind_Gapped -> "Gapped"

(* ---------------------------------------------------------------- calendars *)
exception Bad_cal
let cal_of (t : ostring) : calendar =
  match t with
  | "J" -> calendar_JULIAN
  | "G" -> calendar_GREGORIAN
  | "X" -> calendar_REFORM1582
  | _ ->
    if String.length t < 2 || t.[0] <> 'R' then raise Bad_case;
    let r = i32 (String.sub t 1 (String.length t - 1)) in
    (match run (calendar_reforming r) with Ok c -> c | Err _ -> raise Bad_cal)

