//! Replays the witness inputs of the defects D1-D8 (library) against the real code.
//! Prints one line per witness: `<id> <property> HOLDS|FAILS <description>`; exit 1 if any FAILS.
use julian::{errors::*, system2jdn, Calendar, Month, YearKind};
use std::panic::catch_unwind;
use std::time::{Duration, UNIX_EPOCH};

fn main() {
    std::panic::set_hook(Box::new(|_| {}));
    let mut bad = 0;
    let mut report = |id: &str, prop: &str, ok: bool, what: &str| {
        println!("{id} {prop} {} {what}", if ok { "HOLDS" } else { "FAILS" });
        if !ok {
            bad += 1;
        }
    };
    // D1: year_length in a first-Gregorian year that is a Gregorian leap year whose Feb 29 was skipped
    let c = Calendar::reforming(2299664).unwrap();
    report("D1a", "C08", c.year_length(1584) == 356, "reforming(2299664).year_length(1584) == 356");
    let r = catch_unwind(|| Calendar::reforming(2299664).unwrap().at_jdn(2299969));
    report("D1b", "C01/C05", r.map(|d| d.julian_day_number() == 2299969 && d.year() == 1584 && d.month() == Month::December && d.day() == 31).unwrap_or(false), "reforming(2299664).at_jdn(2299969) is 1584-12-31 (no panic)");
    let r = catch_unwind(|| { let c = Calendar::reforming(2299664).unwrap(); let d = c.at_jdn(2299968).succ().unwrap(); (d.year(), d.month(), d.day(), d.julian_day_number()) });
    report("D1c", "C10/C06", r.map(|t| t == (1584, Month::December, 31, 2299969)).unwrap_or(false), "succ of 1584-12-30 is 1584-12-31 / JDN 2299969");
    report("D1d", "C07", c.at_ordinal_date(1584, 356).is_ok(), "reforming(2299664).at_ordinal_date(1584, 356) is accepted");
    // D2: last Julian date is Feb 29 itself
    let c = Calendar::reforming(1830693).unwrap();
    report("D2", "C08", c.at_ymd(300, Month::February, 29).is_ok() && c.year_kind(300) == YearKind::ReformLeap, "reforming(1830693): 0300-02-29 exists so year_kind(300) == ReformLeap");
    // D3: last Julian date in February of a non-Julian-leap year
    let c = Calendar::reforming(2342397).unwrap();
    let s = c.month_shape(1701, Month::February).unwrap();
    report("D3", "C07/C09", matches!(c.at_ymd(1701, Month::February, 29), Err(DateError::DayOutOfRange { .. })) && s.gap() == Some(18..=28), "reforming(2342397): 1701-02-29 is out of range (not skipped), gap is 18..=28");
    // D4: nth_day overflow on a Gapped month
    let r = catch_unwind(|| Calendar::REFORM1582.month_shape(1582, Month::October).unwrap().nth_day(u32::MAX));
    report("D4", "C05", matches!(r, Ok(None)), "REFORM1582 1582-10 nth_day(u32::MAX) == None without overflow");
    // D5: nth_date at the edge of the JDN range
    let r = catch_unwind(|| Calendar::GREGORIAN.month_shape(5874898, Month::June).unwrap().nth_date(4));
    report("D5a", "C05", r.map(|d| d.is_none()).unwrap_or(false), "GREGORIAN 5874898-06 nth_date(4) is None (no panic)");
    let r = catch_unwind(|| { let mut it = Calendar::GREGORIAN.month_shape(5874898, Month::June).unwrap().dates(); let n = it.len(); let mut k = 0; while it.next().is_some() { k += 1; } (n, k, it.next().is_none()) });
    report("D5b", "C17", r.map(|(n, k, fused)| n == k && k == 3 && fused).unwrap_or(false), "GREGORIAN 5874898-06 dates(): len exact (3), yields 3 items, stays ended");
    // D6: Display of negative years
    report("D6", "C13", Calendar::GREGORIAN.at_ymd(-1, Month::January, 1).unwrap().to_string() == "-0001-01-01", "year -1 displays as -0001-01-01");
    // D7: pre-epoch instants with a fraction of a second
    report("D7", "C14", system2jdn(UNIX_EPOCH - Duration::new(0, 500_000_000)) == Ok((2440587, 86399)), "UNIX_EPOCH - 0.5s is JDN 2440587 second 86399");
    // D8: very negative reformation days
    report("D8", "C12", Calendar::reforming(i32::MIN + 5) == Err(ReformingError::InvalidReformation), "reforming(i32::MIN + 5) is InvalidReformation");
    std::process::exit(if bad > 0 { 1 } else { 0 });
}
